(* C12, second step: putting one blank between two adjacent characters that no terminal of the grammar can match
   across does not change the parse.  Proved for texts without '/' (no comments: those are covered by the skeleton
   theorem of Parse/Layout.v, which turns any comment into a blank and back), for the interpreter whose terminals
   abort where the question depends on verbatim text (Layout.run_term_strict) or on the pair of characters at hand. *)
From Coq Require Import String Ascii List Bool Arith Lia.
From Wrap Require Import Base.Str Parse.Peg Parse.PegProofs Parse.Layout.
Import ListNotations.
Open Scope list_scope.

Definition no_slash (s : chars) : bool := forallb (fun c => negb (Nat.eqb (code c) 47)) s.

Lemma comment_none : forall s, no_slash s = true -> comment s = None.
Proof.
  intros s H. unfold comment. destruct s as [|a [|b t]]; try reflexivity.
  cbn [no_slash forallb] in H. apply andb_true_iff in H. destruct H as [H _]. apply negb_true_iff in H. rewrite H. reflexivity.
Qed.
Lemma no_slash_skip_ws : forall s, no_slash s = true -> no_slash (skip_ws s) = true.
Proof.
  induction s as [|c r IH]; intros H; [reflexivity|]. cbn [skip_ws]. destruct (is_white c); [|exact H].
  apply IH. cbn [no_slash forallb] in H. apply andb_true_iff in H. tauto.
Qed.
Lemma skip_filler_ws : forall s, no_slash s = true -> skip_filler s = skip_ws s.
Proof.
  intros s H. unfold skip_filler. destruct s as [|c r]; [reflexivity|]. cbn [length skip_ignorables].
  rewrite (comment_none _ (no_slash_skip_ws _ H)). reflexivity.
Qed.
Lemma no_slash_app : forall a b, no_slash (a ++ b) = andb (no_slash a) (no_slash b).
Proof. intros a b. unfold no_slash. apply forallb_app. Qed.

Lemma skip_ws_app : forall u c r, is_white c = false -> skip_ws (u ++ c :: r) = skip_ws u ++ c :: r.
Proof.
  induction u as [|d u IH]; intros c r H; cbn [app skip_ws].
  - rewrite H. reflexivity.
  - destruct (is_white d); [apply IH; exact H | reflexivity].
Qed.
Lemma skip_ws_suffix_of : forall u, exists w, u = w ++ skip_ws u /\ forallb is_white w = true.
Proof.
  induction u as [|d u IH]; [exists []; split; reflexivity|]. cbn [skip_ws]. destruct (is_white d) eqn:E.
  - destruct IH as [w [E1 E2]]. exists (d :: w). split; [cbn [app]; f_equal; exact E1 | cbn [forallb]; rewrite E, E2; reflexivity].
  - exists []. split; reflexivity.
Qed.

Lemma last_kw_cons : forall d c l, last_kw d (c :: l) = last_kw (is_kwchar c) l.
Proof. reflexivity. Qed.
Lemma last_kw_indep : forall d d' l, l <> [] -> last_kw d l = last_kw d' l.
Proof. intros d d' [|c l] H; [contradiction | reflexivity]. Qed.

Section Insert.
  Variables (x y : ascii) (V : chars).
  Hypothesis Hx : solid x = true.
  Hypothesis Hy : solid y = true.
  Hypothesis HV : no_slash (x :: y :: V) = true.
  Let S0 : chars := y :: V.
  Let blank : ascii := " "%char.

  (* ---- which terminals can be trusted around the pair (x, y) ---- *)
  Fixpoint has_pair (l : chars) : bool :=
    match l with a :: ((b :: _) as r) => orb (andb (ceq a x) (ceq b y)) (has_pair r) | _ => false end.
  Definition ends_with_x (l : chars) : bool := match rev l with c :: _ => ceq c x | [] => false end.
  Definition ins_ok (t : term) : bool :=
    match t with
    | TLit l => negb (has_pair (chars_of l))
    | TKw l => andb (negb (has_pair (chars_of l)))
                    (andb (negb (andb (is_kwchar x) (match chars_of l with c :: _ => ceq c y | [] => false end)))
                          (negb (andb (ends_with_x (chars_of l)) (is_kwchar y))))
    | TWord i b => negb (andb (cmem y (chars_of b)) (orb (cmem x (chars_of b)) (cmem x (chars_of i))))
    | _ => true
    end.
  (* a keyword of two words and one blank (Layout.two_word) around the pair *)
  Definition two_ok (k : chars) : bool :=
    match split_blank k with
    | Some (w1, w2) =>
      andb (andb (robust_lit w1) (forallb solid w2))
           (andb (andb (negb (has_pair w1)) (negb (has_pair w2)))
                 (match w2 with c :: _ => negb (andb (ends_with_x w1) (ceq c y)) | [] => false end))
    | None => false
    end.
  Definition rt2 (t : term) (st : pst) : outcome :=
    if andb (robust_term t) (ins_ok t) then run_term t st
    else match t with
         | TKw k => if two_ok (chars_of k) then two_word (chars_of k) st else NoFuel
         | _ => NoFuel
         end.

  (* ---- the relation between the states of the two runs ---- *)
  Inductive Rel : pst -> pst -> Prop :=
  | RelP : forall p u, no_slash u = true ->
           Rel {| pk := p; rest := u ++ x :: S0 |} {| pk := p; rest := u ++ x :: blank :: S0 |}
  | RelB : Rel {| pk := is_kwchar x; rest := S0 |} {| pk := is_kwchar x; rest := blank :: S0 |}
  | RelE : forall st, length (rest st) < length S0 -> Rel st st.

  Lemma Rel_compare : forall a a' b b', Rel a a' -> Rel b b' ->
    Nat.ltb (length (rest a)) (length (rest b)) = Nat.ltb (length (rest a')) (length (rest b')).
  Proof.
    intros a a' b b' Ha Hb.
    assert (M : forall s s', Rel s s' -> (length (rest s') = S (length (rest s)) /\ length S0 <= length (rest s)) \/
                                         (length (rest s') = length (rest s) /\ length (rest s) < length S0)).
    { intros s s' H. destruct H as [p u Hu| |st Hl]; cbn [rest].
      - left. rewrite !app_length. cbn [length]. lia.
      - left. cbn [length]. lia.
      - right. split; [reflexivity | exact Hl]. }
    destruct (M _ _ Ha) as [[A1 A2]|[A1 A2]]; destruct (M _ _ Hb) as [[B1 B2]|[B1 B2]]; rewrite A1, B1.
    - destruct (Nat.ltb_spec (length (rest a)) (length (rest b))); destruct (Nat.ltb_spec (S (length (rest a))) (S (length (rest b)))); try reflexivity; lia.
    - destruct (Nat.ltb_spec (length (rest a)) (length (rest b))); destruct (Nat.ltb_spec (S (length (rest a))) (length (rest b))); try reflexivity; lia.
    - destruct (Nat.ltb_spec (length (rest a)) (length (rest b))); destruct (Nat.ltb_spec (length (rest a)) (S (length (rest b)))); try reflexivity; lia.
    - reflexivity.
  Qed.

  Definition sim2 (o o' : outcome) : Prop :=
    match o, o' with
    | Fail, Fail => True
    | NoFuel, NoFuel => True
    | Match i a, Match i' a' => i = i' /\ Rel a a'
    | _, _ => False
    end.

  Lemma sim2_refl_short : forall o st, length (rest st) < length S0 ->
    (forall i st', o = Match i st' -> length (rest st') <= length (rest st)) -> sim2 o o.
  Proof.
    intros o st Hl H. destruct o as [| |i st']; cbn [sim2]; try exact I. split; [reflexivity|].
    apply RelE. specialize (H i st' eq_refl). lia.
  Qed.

  Lemma Cov_len : forall s l r, Cov s l r -> length r <= length s.
  Proof.
    intros s l r H. induction H.
    - apply le_n.
    - pose proof (skip_filler_len s). lia.
    - pose proof (skip_ign_len (length s) s). lia.
    - rewrite app_length. lia.
  Qed.
  Lemma run_term_len : forall t st i st', run_term t st = Match i st' -> length (rest st') <= length (rest st).
  Proof.
    intros t st i st' H. pose proof (run_term_traced t st) as T. rewrite H in T. destruct T as [tr [C _]].
    apply (Cov_len _ _ _ C).
  Qed.

  (* ---- characters ---- *)
  Lemma solid_not_white : forall c, solid c = true -> is_white c = false.
  Proof. intros c H. unfold solid in H. apply andb_true_iff in H. destruct H as [H _]. apply negb_true_iff in H. exact H. Qed.
  Lemma blank_white : is_white blank = true. Proof. reflexivity. Qed.

  Lemma robust_no_blank : forall l, robust_lit l = true -> forallb (fun c => negb (is_white c)) l = true.
  Proof.
    intros [|c l] H; [discriminate|]. cbn [robust_lit] in H. apply andb_true_iff in H. destruct H as [H1 H2].
    cbn [forallb]. rewrite H1. cbn [andb]. rewrite forallb_forall in *. intros z Hz. specialize (H2 z Hz).
    rewrite (solid_not_white z H2). reflexivity.
  Qed.

  (* ---- matching a literal across the insertion point ---- *)
  Inductive After : chars -> chars -> Prop :=
  | AfterP : forall u, After (u ++ x :: S0) (u ++ x :: blank :: S0)
  | AfterB : After S0 (blank :: S0).

  Lemma prefix_ins : forall l u, forallb (fun c => negb (is_white c)) l = true -> has_pair l = false ->
    match prefix l (u ++ x :: S0), prefix l (u ++ x :: blank :: S0) with
    | Some r, Some r' =>
      (exists u3 w, u = w ++ u3 /\ r = u3 ++ x :: S0 /\ r' = u3 ++ x :: blank :: S0) \/
      (r = S0 /\ r' = blank :: S0 /\ ends_with_x l = true /\ l <> [])
    | None, None => True
    | _, _ => False
    end.
  Proof.
    induction l as [|c l IH]; intros u Hw Hp.
    - cbn [prefix]. left. exists u, []. repeat split; reflexivity.
    - cbn [forallb] in Hw. apply andb_true_iff in Hw. destruct Hw as [Hc Hw]. apply negb_true_iff in Hc.
      destruct u as [|d u].
      + (* at x *)
        cbn [app prefix]. destruct (ceq c x) eqn:Ecx; [|exact I]. apply ceq_eq in Ecx. subst c.
        destruct l as [|c2 l].
        * cbn [prefix]. right. repeat split; try reflexivity; [|discriminate]. unfold ends_with_x. cbn. unfold ceq. apply Ascii.eqb_refl.
        * cbn [prefix]. unfold S0. cbn [forallb] in Hw. apply andb_true_iff in Hw. destruct Hw as [Hc2 _]. apply negb_true_iff in Hc2.
          assert (E2 : ceq c2 blank = false).
          { destruct (ceq c2 blank) eqn:E; [|reflexivity]. apply ceq_eq in E. subst c2. rewrite blank_white in Hc2. discriminate. }
          rewrite E2. cbn [has_pair] in Hp. apply orb_false_iff in Hp. destruct Hp as [Hp _].
          unfold ceq in Hp at 1. rewrite Ascii.eqb_refl in Hp. cbn [andb] in Hp. rewrite Hp. exact I.
      + cbn [app prefix]. destruct (ceq c d) eqn:Ecd; [|exact I].
        assert (Hp' : has_pair l = false).
        { destruct l as [|c2 l]; [reflexivity|]. cbn [has_pair] in Hp. apply orb_false_iff in Hp. tauto. }
        specialize (IH u Hw Hp').
        destruct (prefix l (u ++ x :: S0)) as [r|]; destruct (prefix l (u ++ x :: blank :: S0)) as [r'|]; try exact IH.
        destruct IH as [[u3 [w [E1 [E2 E3]]]]|[E1 [E2 [E3 E4]]]].
        * left. exists u3, (d :: w). subst. repeat split; reflexivity.
        * right. repeat split; try assumption; [|discriminate]. unfold ends_with_x in *. cbn [rev]. destruct l as [|c2 l]; [contradiction|].
          cbn [rev] in *. destruct (rev l ++ [c2]) eqn:R; [destruct (rev l); discriminate|]. cbn [app]. exact E3.
  Qed.

  Lemma x_not_white : is_white x = false. Proof. apply solid_not_white. exact Hx. Qed.
  Lemma y_not_white : is_white y = false. Proof. apply solid_not_white. exact Hy. Qed.

  Lemma pre_P : forall p u, no_slash u = true ->
    exists p2 u2 w, u = w ++ u2 /\ no_slash u2 = true /\
      pre {| pk := p; rest := u ++ x :: S0 |} = {| pk := p2; rest := u2 ++ x :: S0 |} /\
      pre {| pk := p; rest := u ++ x :: blank :: S0 |} = {| pk := p2; rest := u2 ++ x :: blank :: S0 |} /\
      match u2 with c :: _ => is_white c = false | [] => True end.
  Proof.
    intros p u Hu. unfold pre, moved. cbn [rest].
    assert (N1 : no_slash (u ++ x :: S0) = true) by (rewrite no_slash_app, Hu; exact HV).
    assert (N2 : no_slash (u ++ x :: blank :: S0) = true).
    { rewrite no_slash_app, Hu. cbn [andb]. unfold S0 in *. cbn [no_slash forallb] in *.
      apply andb_true_iff in HV. destruct HV as [A B]. rewrite A, B. reflexivity. }
    rewrite (skip_filler_ws _ N1), (skip_filler_ws _ N2), !(skip_ws_app u x _ x_not_white).
    destruct (skip_ws_suffix_of u) as [w [Ew Hw]].
    assert (Nu2 : no_slash (skip_ws u) = true) by (apply no_slash_skip_ws; exact Hu).
    assert (L : forall z, Nat.ltb (length (skip_ws u ++ z)) (length (u ++ z)) = Nat.ltb (length (skip_ws u)) (length u)).
    { intros z. rewrite !app_length. destruct (Nat.ltb_spec (length (skip_ws u)) (length u)); destruct (Nat.ltb_spec (length (skip_ws u) + length z) (length u + length z)); try reflexivity; lia. }
    rewrite !L. pose proof (skip_ws_nonwhite u) as NW.
    destruct (Nat.ltb (length (skip_ws u)) (length u)) eqn:E.
    - exists false, (skip_ws u), w. repeat split; try assumption; try reflexivity.
    - assert (Eu : skip_ws u = u).
      { apply Nat.ltb_ge in E. pose proof (f_equal (@length ascii) Ew) as Lw. rewrite app_length in Lw.
        destruct w; [exact (eq_sym Ew) | cbn [length] in Lw; lia]. }
      rewrite Eu in *. exists p, u, []. repeat split; try assumption; try reflexivity.
  Qed.

  Lemma first_char_same : forall (A : Type) u (f : ascii -> A) (d : A) z z',
    match u ++ x :: z with c :: _ => f c | [] => d end = match u ++ x :: z' with c :: _ => f c | [] => d end.
  Proof. intros A [|c u] f d z z'; reflexivity. Qed.

  Lemma last_kw_ends_x : forall d l, ends_with_x l = true -> last_kw d l = is_kwchar x.
  Proof.
    intros d l H. unfold ends_with_x in H. destruct (rev l) as [|c r] eqn:R; [discriminate|]. apply ceq_eq in H. subst c.
    assert (E : l = rev r ++ [x]) by (rewrite <- (rev_involutive l), R; reflexivity).
    rewrite E. unfold last_kw. rewrite fold_left_app. reflexivity.
  Qed.

  (* ---- words ---- *)
  Lemma span_ins : forall (f : ascii -> bool) w, f blank = false -> (f y = true -> f x = false) ->
    (exists w1 w2, w = w1 ++ w2 /\ forallb f w1 = true /\
       span f (w ++ x :: S0) = w2 ++ x :: S0 /\ span f (w ++ x :: blank :: S0) = w2 ++ x :: blank :: S0) \/
    (forallb f w = true /\ f x = true /\ span f (w ++ x :: S0) = S0 /\ span f (w ++ x :: blank :: S0) = blank :: S0).
  Proof.
    intros f w Hb Hxy'. induction w as [|c w IH]; cbn [app span].
    - destruct (f x) eqn:Fx.
      + right. repeat split; try reflexivity. 
        * unfold S0. cbn [span]. destruct (f y) eqn:Fy; [specialize (Hxy' eq_refl); discriminate | reflexivity].
        * cbn [span]. rewrite Hb. reflexivity.
      + left. exists [], []. repeat split; reflexivity.
    - destruct (f c) eqn:Fc.
      + destruct IH as [[w1 [w2 [E1 [E2 [E3 E4]]]]]|[E1 [E2 [E3 E4]]]].
        * left. exists (c :: w1), w2. subst w. repeat split; try assumption. cbn [forallb]. rewrite Fc, E2. reflexivity.
        * right. repeat split; try assumption. cbn [forallb]. rewrite Fc, E1. reflexivity.
      + left. exists [], (c :: w). repeat split; reflexivity.
  Qed.

  Lemma S0_noslash : no_slash S0 = true.
  Proof. unfold S0. cbn [no_slash forallb] in *. apply andb_true_iff in HV. tauto. Qed.
  Lemma pre_B : forall p, pre {| pk := p; rest := S0 |} = {| pk := p; rest := S0 |}.
  Proof.
    intros p. unfold pre, moved. cbn [rest]. rewrite (skip_filler_ws _ S0_noslash). unfold S0. cbn [skip_ws]. rewrite y_not_white.
    rewrite Nat.ltb_irrefl. reflexivity.
  Qed.
  Lemma pre_B' : forall p, pre {| pk := p; rest := blank :: S0 |} = {| pk := false; rest := S0 |}.
  Proof.
    intros p. unfold pre, moved. cbn [rest].
    assert (N : no_slash (blank :: S0) = true).
    { change (no_slash (blank :: S0)) with (andb (negb (Nat.eqb (code blank) 47)) (no_slash S0)). rewrite S0_noslash. reflexivity. }
    rewrite (skip_filler_ws _ N).
    assert (E : skip_ws (blank :: S0) = S0).
    { unfold blank, S0. cbn [skip_ws]. change (is_white " "%char) with true. cbn iota. rewrite y_not_white. reflexivity. }
    rewrite E. assert (L : Nat.ltb (length S0) (length (blank :: S0)) = true) by (apply Nat.ltb_lt; cbn [length]; lia).
    rewrite L. reflexivity.
  Qed.

  Lemma robust_lit_nonempty : forall l, robust_lit l = true -> l <> [].
  Proof. intros [|c l] H; [discriminate | discriminate]. Qed.

  Lemma solid_set_no_blank : forall b, forallb solid b = true -> cmem blank b = false.
  Proof.
    intros b H. destruct (cmem blank b) eqn:E; [|reflexivity]. unfold cmem in E. apply existsb_exists in E.
    destruct E as [z [Hz Ez]]. apply ceq_eq in Ez. subst z. rewrite forallb_forall in H. specialize (H _ Hz). discriminate.
  Qed.

  Lemma filler_start_noslash : forall c r, no_slash (c :: r) = true -> filler_start (c :: r) = is_white c.
  Proof. intros c r H. unfold filler_start. rewrite (comment_none _ H). apply orb_false_r. Qed.

  Lemma solid_no_blank_list : forall w, forallb solid w = true -> forallb (fun c => negb (is_white c)) w = true.
  Proof.
    intros w H. rewrite forallb_forall in *. intros z Hz. rewrite (solid_not_white z (H z Hz)). reflexivity.
  Qed.

  Lemma two_word_sim : forall k a a', two_ok k = true -> Rel a a' -> sim2 (two_word k a) (two_word k a').
  Proof.
    intros k a a' Hk H. unfold two_ok in Hk. unfold two_word.
    destruct (split_blank k) as [[w1 w2]|]; [|discriminate].
    apply andb_true_iff in Hk. destruct Hk as [Hk1 Hk2]. rewrite Hk1. apply andb_true_iff in Hk1. destruct Hk1 as [R1 R2].
    apply andb_true_iff in Hk2. destruct Hk2 as [Hk2 Hk3]. apply andb_true_iff in Hk2. destruct Hk2 as [P1 P2].
    apply negb_true_iff in P1. apply negb_true_iff in P2.
    destruct H as [p u Hu| |st Hl].
    - destruct (pre_P p u Hu) as [p2 [u2 [w [Eu [Hu2 [Q1 [Q2 Hnw]]]]]]]. rewrite Q1, Q2. cbn [rest].
      pose proof (prefix_ins w1 u2 (robust_no_blank _ R1) P1) as L.
      destruct (prefix w1 (u2 ++ x :: S0)) as [r|]; destruct (prefix w1 (u2 ++ x :: blank :: S0)) as [r'|]; try contradiction; [|exact I].
      destruct L as [[u3 [w3 [E1 [E2 E3]]]]|[E1 [E2 [E3 E4]]]]; subst.
      + assert (Hu3 : no_slash u3 = true) by (rewrite no_slash_app in Hu2; apply andb_true_iff in Hu2; tauto).
        assert (N1 : no_slash (u3 ++ x :: S0) = true) by (rewrite no_slash_app, Hu3; exact HV).
        assert (N2 : no_slash (u3 ++ x :: blank :: S0) = true).
        { rewrite no_slash_app, Hu3. cbn [andb]. unfold S0 in *. cbn [no_slash forallb] in *.
          apply andb_true_iff in HV. destruct HV as [A B]. rewrite A, B. reflexivity. }
        assert (FS : filler_start (u3 ++ x :: S0) = filler_start (u3 ++ x :: blank :: S0)).
        { destruct u3 as [|c u3]; cbn [app] in *; rewrite !filler_start_noslash by assumption; reflexivity. }
        rewrite <- FS. destruct (filler_start (u3 ++ x :: S0)); [|exact I].
        rewrite (skip_filler_ws _ N1), (skip_filler_ws _ N2), !(skip_ws_app u3 x _ x_not_white).
        pose proof (prefix_ins w2 (skip_ws u3) (solid_no_blank_list _ R2) P2) as L2.
        destruct (prefix w2 (skip_ws u3 ++ x :: S0)); destruct (prefix w2 (skip_ws u3 ++ x :: blank :: S0)); try contradiction; exact I.
      + (* the first word ends at x *)
        assert (F1 : filler_start S0 = false).
        { unfold S0. rewrite (filler_start_noslash y V S0_noslash). apply y_not_white. }
        assert (N : no_slash (blank :: S0) = true).
        { change (no_slash (blank :: S0)) with (andb (negb (Nat.eqb (code blank) 47)) (no_slash S0)). rewrite S0_noslash. reflexivity. }
        rewrite F1. rewrite (filler_start_noslash blank S0 N). change (is_white blank) with true. cbn iota.
        rewrite (skip_filler_ws _ N).
        assert (E : skip_ws (blank :: S0) = S0).
        { unfold blank, S0. cbn [skip_ws]. change (is_white " "%char) with true. cbn iota. rewrite y_not_white. reflexivity. }
        rewrite E. destruct w2 as [|c w2']; [discriminate|]. apply negb_true_iff in Hk3. rewrite E3 in Hk3. cbn [andb] in Hk3.
        unfold S0. cbn [prefix]. rewrite Hk3. exact I.
    - rewrite pre_B, pre_B'. cbn [rest].
      destruct (prefix w1 S0); [|exact I]. destruct (filler_start c); [|exact I]. destruct (prefix w2 (skip_filler c)); exact I.
    - destruct (prefix w1 (rest (pre st))); [|exact I]. destruct (filler_start c); [|exact I]. destruct (prefix w2 (skip_filler c)); exact I.
  Qed.

  Lemma rt2_sim : forall t a a', Rel a a' -> sim2 (rt2 t a) (rt2 t a').
  Proof.
    intros t a a' H. unfold rt2. destruct (andb (robust_term t) (ins_ok t)) eqn:C.
    2:{ destruct t as [l|k|i b|cs| |]; try exact I. destruct (two_ok (chars_of k)) eqn:K; [|exact I]. apply two_word_sim; assumption. }
    apply andb_true_iff in C. destruct C as [Hr Hi].
    destruct H as [p u Hu| |st Hl].
    - (* before the insertion point *)
      destruct (pre_P p u Hu) as [p2 [u2 [w [Eu [Hu2 [P1 [P2 Hnw]]]]]]].
      destruct t as [l|l|i b|cs| |]; cbn [robust_term] in Hr; try discriminate; unfold run_term; cbn [pre_term]; rewrite P1, P2; cbn [rest pk].
      + (* literal *)
        cbn [ins_ok] in Hi. apply negb_true_iff in Hi.
        pose proof (prefix_ins (chars_of l) u2 (robust_no_blank _ Hr) Hi) as L.
        destruct (prefix (chars_of l) (u2 ++ x :: S0)) as [r|]; destruct (prefix (chars_of l) (u2 ++ x :: blank :: S0)) as [r'|]; try contradiction; [|exact I].
        cbn [sim2]. split; [reflexivity|]. destruct L as [[u3 [w3 [E1 [E2 E3]]]]|[E1 [E2 [E3 E4]]]]; subst.
        * apply RelP. rewrite no_slash_app in Hu2. apply andb_true_iff in Hu2. tauto.
        * rewrite (last_kw_ends_x p2 _ E3). apply RelB.
      + (* keyword *)
        cbn [ins_ok] in Hi. apply andb_true_iff in Hi. destruct Hi as [Hi1 Hi2]. apply andb_true_iff in Hi2. destruct Hi2 as [Hi2 Hi3].
        apply negb_true_iff in Hi1.
        pose proof (prefix_ins (chars_of l) u2 (robust_no_blank _ Hr) Hi1) as L.
        destruct (prefix (chars_of l) (u2 ++ x :: S0)) as [r|]; destruct (prefix (chars_of l) (u2 ++ x :: blank :: S0)) as [r'|]; try contradiction; [|exact I].
        destruct L as [[u3 [w3 [E1 [E2 E3]]]]|[E1 [E2 [E3 E4]]]]; subst.
        * rewrite (first_char_same bool u3 (fun c => negb (is_kwchar c)) true S0 (blank :: S0)).
          destruct (andb (negb p2) match u3 ++ x :: blank :: S0 with c :: _ => negb (is_kwchar c) | [] => true end); [|exact I].
          cbn [sim2]. split; [reflexivity|]. apply RelP. rewrite no_slash_app in Hu2. apply andb_true_iff in Hu2. tauto.
        * apply negb_true_iff in Hi3. rewrite E3 in Hi3. cbn [andb] in Hi3. unfold S0 at 1. cbn iota. rewrite Hi3. cbn [negb].
          destruct (negb p2); cbn [andb]; [|exact I]. cbn [sim2]. split; [reflexivity|]. rewrite (last_kw_ends_x p2 _ E3). apply RelB.
      + (* word *)
        apply andb_true_iff in Hr. destruct Hr as [Hsi Hsb]. cbn [ins_ok] in Hi. apply negb_true_iff in Hi.
        set (f := fun z => cmem z (chars_of b)).
        assert (Fb : f blank = false) by (apply solid_set_no_blank; exact Hsb).
        assert (Fy : f y = true -> f x = false /\ cmem x (chars_of i) = false).
        { intros E. unfold f in E. rewrite E in Hi. cbn [andb] in Hi. apply orb_false_iff in Hi. exact Hi. }
        destruct u2 as [|c u2'].
        * cbn [app]. destruct (cmem x (chars_of i)) eqn:Cx; [|exact I].
          assert (Ny : f y = false) by (destruct (f y) eqn:E; [destruct (Fy eq_refl); congruence | reflexivity]).
          assert (Sa : span f S0 = S0) by (unfold S0; cbn [span]; rewrite Ny; reflexivity).
          assert (Sb : span f (blank :: S0) = blank :: S0) by (cbn [span]; rewrite Fb; reflexivity).
          rewrite Sa, Sb.
          unfold after. cbn [rest pk length]. cbn [sim2].
          replace (S (length S0) - length S0) with 1 by lia. replace (S (S (length S0)) - S (length S0)) with 1 by lia.
          cbn [firstn]. split; [reflexivity|]. cbn [last_kw fold_left]. apply RelB.
        * cbn [app]. destruct (cmem c (chars_of i)); [|exact I]. fold f.
          destruct (span_ins f u2' Fb (fun E => proj1 (Fy E))) as [[w1 [w2 [E1 [E2 [E3 E4]]]]]|[E1 [E2 [E3 E4]]]].
          -- rewrite E3, E4. unfold after. cbn [rest pk]. subst u2'.
             assert (T1 : firstn (length (c :: (w1 ++ w2) ++ x :: S0) - length (w2 ++ x :: S0)) (c :: (w1 ++ w2) ++ x :: S0) = c :: w1).
             { replace (c :: (w1 ++ w2) ++ x :: S0) with ((c :: w1) ++ (w2 ++ x :: S0)) by (cbn [app]; rewrite <- app_assoc; reflexivity). apply firstn_cut. }
             assert (T2 : firstn (length (c :: (w1 ++ w2) ++ x :: blank :: S0) - length (w2 ++ x :: blank :: S0)) (c :: (w1 ++ w2) ++ x :: blank :: S0) = c :: w1).
             { replace (c :: (w1 ++ w2) ++ x :: blank :: S0) with ((c :: w1) ++ (w2 ++ x :: blank :: S0)) by (cbn [app]; rewrite <- app_assoc; reflexivity). apply firstn_cut. }
             rewrite T1, T2. cbn [sim2]. split; [reflexivity|]. apply RelP.
             change (c :: w1 ++ w2) with ((c :: w1) ++ w2) in Hu2. rewrite no_slash_app in Hu2. apply andb_true_iff in Hu2. tauto.
          -- rewrite E3, E4. unfold after. cbn [rest pk].
             assert (T1 : firstn (length (c :: u2' ++ x :: S0) - length S0) (c :: u2' ++ x :: S0) = c :: u2' ++ [x]).
             { replace (c :: u2' ++ x :: S0) with ((c :: u2' ++ [x]) ++ S0) by (cbn [app]; rewrite <- app_assoc; reflexivity). apply firstn_cut. }
             assert (T2 : firstn (length (c :: u2' ++ x :: blank :: S0) - length (blank :: S0)) (c :: u2' ++ x :: blank :: S0) = c :: u2' ++ [x]).
             { replace (c :: u2' ++ x :: blank :: S0) with ((c :: u2' ++ [x]) ++ blank :: S0) by (cbn [app]; rewrite <- app_assoc; reflexivity). apply firstn_cut. }
             rewrite T1, T2. cbn [sim2]. split; [reflexivity|].
             assert (K : last_kw p2 (c :: u2' ++ [x]) = is_kwchar x).
             { apply last_kw_ends_x. unfold ends_with_x. change (c :: u2' ++ [x]) with ((c :: u2') ++ [x]). rewrite rev_app_distr. cbn. unfold ceq. apply Ascii.eqb_refl. }
             rewrite K. apply RelB.
      + (* end of text *)
        destruct (u2 ++ x :: S0) eqn:E1; [destruct u2; discriminate|]. destruct (u2 ++ x :: blank :: S0) eqn:E2; [destruct u2; discriminate|]. exact I.
    - (* right at the insertion point *)
      destruct t as [l|l|i b|cs| |]; cbn [robust_term] in Hr; try discriminate; unfold run_term; cbn [pre_term]; rewrite pre_B, pre_B'; cbn [rest pk].
      + destruct (prefix (chars_of l) S0) as [r|] eqn:P; [|exact I]. cbn [sim2]. split; [reflexivity|].
        rewrite (last_kw_indep (is_kwchar x) false _ (robust_lit_nonempty _ Hr)).
        apply RelE. cbn [rest]. apply prefix_split in P. rewrite P, app_length.
        pose proof (robust_lit_nonempty _ Hr). destruct (chars_of l); [contradiction | cbn [length]; lia].
      + destruct (prefix (chars_of l) S0) as [r|] eqn:P; [|exact I].
        cbn [ins_ok] in Hi. apply andb_true_iff in Hi. destruct Hi as [_ Hi]. apply andb_true_iff in Hi. destruct Hi as [Hi _].
        assert (Kx : is_kwchar x = false).
        { destruct (chars_of l) as [|c l'] eqn:El; [apply robust_lit_nonempty in Hr; contradiction|].
          unfold S0 in P. cbn [prefix] in P. destruct (ceq c y) eqn:Ec; [|discriminate].
          apply negb_true_iff in Hi. rewrite andb_true_r in Hi. exact Hi. }
        rewrite Kx. cbn [negb andb].
        destruct (match r with c :: _ => negb (is_kwchar c) | [] => true end); [|exact I].
        cbn [sim2]. split; [reflexivity|]. apply RelE. cbn [rest]. apply prefix_split in P. rewrite P, app_length.
        pose proof (robust_lit_nonempty _ Hr). destruct (chars_of l); [contradiction | cbn [length]; lia].
      + unfold S0. cbv iota. destruct (cmem y (chars_of i)); [|exact I].
        unfold after. cbn [rest pk]. cbn [sim2]. split; [reflexivity|].
        set (r' := span (fun z => cmem z (chars_of b)) V).
        assert (Lr : length r' <= length V) by (unfold r'; clear; induction V as [|d v IH]; cbn [span]; [lia|]; destruct (cmem d (chars_of b)); cbn [length]; lia).
        assert (NE : firstn (length (y :: V) - length r') (y :: V) <> []).
        { cbn [length]. replace (S (length V) - length r') with (S (length V - length r')) by lia. discriminate. }
        rewrite (last_kw_indep (is_kwchar x) false _ NE). apply RelE. cbn [rest]. unfold S0. cbn [length]. lia.
      + unfold S0. exact I.
    - (* after it: the same state *)
      apply (sim2_refl_short _ st Hl). intros i st' E. apply (run_term_len t st i st' E).
  Qed.

  (* ---- combinators ---- *)
  Section Comb.
    Variable rec : gexpr -> pst -> outcome.
    Hypothesis Hrec : forall e a a', Rel a a' -> sim2 (rec e a) (rec e a').

    Lemma seq_sim2 : forall l acc a a', Rel a a' -> sim2 (seq rec l acc a) (seq rec l acc a').
    Proof.
      induction l as [|e l IH]; intros acc a a' H; cbn [seq]; [cbn [sim2]; split; [reflexivity | exact H]|].
      pose proof (Hrec e a a' H) as S. destruct (rec e a) as [| |i a1]; destruct (rec e a') as [| |i' a1']; cbn [sim2] in S; try contradiction; try exact I.
      destruct S as [E R1]. subst i'. apply IH. exact R1.
    Qed.

    Lemma alt_longest_sim2 : forall l a a' best best', Rel a a' -> sim2 best best' ->
      sim2 (alt_longest rec a l best) (alt_longest rec a' l best').
    Proof.
      induction l as [|e l IH]; intros a a' best best' H Hb; cbn [alt_longest]; [exact Hb|].
      pose proof (Hrec e a a' H) as S. destruct (rec e a) as [| |i a1]; destruct (rec e a') as [| |i' a1']; cbn [sim2] in S; try contradiction.
      - apply IH; assumption.
      - exact I.
      - destruct S as [E R1]. subst i'.
        destruct best as [| |i0 b0]; destruct best' as [| |i0' b0']; cbn [sim2] in Hb; try contradiction.
        + apply IH; [exact H | cbn [sim2]; split; [reflexivity | exact R1]].
        + apply IH; [exact H | cbn [sim2]; split; [reflexivity | exact R1]].
        + destruct Hb as [E0 R0]. subst i0'. rewrite (Rel_compare _ _ _ _ R1 R0).
          destruct (Nat.ltb (length (rest a1')) (length (rest b0'))); apply IH; try exact H; cbn [sim2]; split; try reflexivity; assumption.
    Qed.

    Lemma alt_first_sim2 : forall l a a', Rel a a' -> sim2 (alt_first rec a l) (alt_first rec a' l).
    Proof.
      induction l as [|e l IH]; intros a a' H; cbn [alt_first]; [exact I|].
      pose proof (Hrec e a a' H) as S. destruct (rec e a) as [| |i a1]; destruct (rec e a') as [| |i' a1']; cbn [sim2] in S; try contradiction.
      - apply IH. exact H.
      - exact I.
      - exact S.
    Qed.

    Lemma star_sim2 : forall k e acc a a', Rel a a' -> sim2 (star rec k e acc a) (star rec k e acc a').
    Proof.
      induction k as [|k IH]; intros e acc a a' H; cbn [star]; [exact I|].
      pose proof (Hrec e a a' H) as S. destruct (rec e a) as [| |i a1]; destruct (rec e a') as [| |i' a1']; cbn [sim2] in S; try contradiction.
      - cbn [sim2]. split; [reflexivity | exact H].
      - exact I.
      - destruct S as [E R1]. subst i'. apply IH. exact R1.
    Qed.
  End Comb.

  Theorem interp_ins : forall g f e a a', Rel a a' -> sim2 (interp_with rt2 g f e a) (interp_with rt2 g f e a').
  Proof.
    intros g. induction f as [|f IH]; intros e a a' H; cbn [interp_with]; [exact I|].
    destruct e as [t|l|l|l|e|e|e|n e|r].
    - apply rt2_sim. exact H.
    - apply (seq_sim2 _ IH). exact H.
    - apply (alt_longest_sim2 _ IH); [exact H | exact I].
    - apply (alt_first_sim2 _ IH). exact H.
    - pose proof (IH e a a' H) as S. destruct (interp_with rt2 g f e a) as [| |i a1]; destruct (interp_with rt2 g f e a') as [| |i' a1']; cbn [sim2] in S; try contradiction; try exact S.
      cbn [sim2]. split; [reflexivity | exact H].
    - apply (star_sim2 _ IH). exact H.
    - pose proof (IH e a a' H) as S. destruct (interp_with rt2 g f e a) as [| |i a1]; destruct (interp_with rt2 g f e a') as [| |i' a1']; cbn [sim2] in S; try contradiction; try exact S.
      destruct S as [_ R1]. cbn [sim2]. split; [reflexivity | exact R1].
    - pose proof (IH e a a' H) as S. destruct (interp_with rt2 g f e a) as [| |i a1]; destruct (interp_with rt2 g f e a') as [| |i' a1']; cbn [sim2] in S; try contradiction; try exact S.
      destruct S as [E R1]. subst i'. cbn [sim2]. split; [reflexivity | exact R1].
    - destruct (lookup g r) as [body|]; [|exact I].
      pose proof (IH body a a' H) as S. destruct (interp_with rt2 g f body a) as [| |i a1]; destruct (interp_with rt2 g f body a') as [| |i' a1']; cbn [sim2] in S; try contradiction; try exact S.
      destruct S as [E R1]. subst i'. cbn [sim2]. split; [reflexivity | exact R1].
  Qed.

  Lemma rt2_exact : forall t st, rt2 t st <> NoFuel -> run_term t st = rt2 t st.
  Proof.
    intros t st H. unfold rt2 in *. destruct (andb (robust_term t) (ins_ok t)); [reflexivity|].
    destruct t as [l|k|i b|cs| |]; try contradiction. destruct (two_ok (chars_of k)) eqn:K; [|contradiction].
    assert (NR : robust_term (TKw k) = false).
    { cbn [robust_term]. unfold two_ok in K. destruct (split_blank (chars_of k)) as [[w1 w2]|] eqn:E; [|discriminate].
      apply split_blank_app in E. rewrite E. destruct w1 as [|c w1]; [reflexivity|]. cbn [app robust_lit].
      apply andb_false_iff. right. rewrite forallb_app. cbn [forallb]. change (solid " "%char) with false. cbn [andb]. apply andb_false_r. }
    pose proof (strict_exact_term (TKw k) st) as X. unfold run_term_strict in X. rewrite NR in X. apply X. exact H.
  Qed.

  (* One blank put between x and y - two solid characters that the terminals reached by the parse cannot match across
     (rt2 aborts on a terminal that could: a literal or keyword holding the pair, a word over both, a keyword starting at y
     after a keyword character, a keyword ending at x before one) - changes neither the verdict nor the match tree of the real interpreter. *)
  Theorem insert_blank : forall g e U f f',
    no_slash U = true ->
    interp_with rt2 g f e {| pk := false; rest := U ++ x :: y :: V |} <> NoFuel ->
    interp g f' e {| pk := false; rest := U ++ x :: blank :: y :: V |} <> NoFuel ->
    same_answer (interp g f e {| pk := false; rest := U ++ x :: y :: V |})
                (interp g f' e {| pk := false; rest := U ++ x :: blank :: y :: V |}).
  Proof.
    intros g e U f f' HU Hq Hf'.
    set (A := {| pk := false; rest := U ++ x :: y :: V |}) in *. set (A' := {| pk := false; rest := U ++ x :: blank :: y :: V |}) in *.
    assert (HR : Rel A A') by (apply (RelP false U HU)).
    set (F := Nat.max f f').
    assert (E1 : interp_with rt2 g F e A = interp_with rt2 g f e A) by (apply fuel_mono; [exact Hq | unfold F; lia]).
    pose proof (interp_ins g F e A A' HR) as S. rewrite E1 in S.
    assert (X1 : interp g f e A = interp_with rt2 g f e A).
    { unfold interp. apply (abort_refines rt2 run_term g rt2_exact). exact Hq. }
    rewrite X1.
    destruct (interp_with rt2 g f e A) as [| |i a1] eqn:Ea; [| contradiction |].
    - destruct (interp_with rt2 g F e A') as [| |i' a1'] eqn:Eb; cbn [sim2] in S; try contradiction.
      assert (Hb : interp_with rt2 g F e A' <> NoFuel) by congruence.
      pose proof (abort_refines rt2 run_term g rt2_exact F e A' Hb) as X2. rewrite Eb in X2. fold (interp g) in X2.
      assert (Y : interp g F e A' = interp g f' e A') by (apply fuel_mono; [exact Hf' | unfold F; lia]).
      rewrite <- Y, X2. exact I.
    - destruct (interp_with rt2 g F e A') as [| |i' a1'] eqn:Eb; cbn [sim2] in S; try contradiction.
      assert (Hb : interp_with rt2 g F e A' <> NoFuel) by congruence.
      pose proof (abort_refines rt2 run_term g rt2_exact F e A' Hb) as X2. rewrite Eb in X2. fold (interp g) in X2.
      assert (Y : interp g F e A' = interp g f' e A') by (apply fuel_mono; [exact Hf' | unfold F; lia]).
      rewrite <- Y, X2. cbn [same_answer]. destruct S as [E _]. exact E.
  Qed.
End Insert.

(* Proofs for C02: the model's instantiate_type refines substitution on dom_ty. *)
From Coq Require Import String Ascii List Bool Arith Lia.
From Wrap Require Import Base.Str Base.StrLemmas Base.ListX Syntax.Ast Syntax.Print Inst.Model Inst.Subst.
Import ListNotations.
Open Scope string_scope.
Open Scope list_scope.

(* ---- induction principle for ty with Forall on template parameters ---- *)
Section TyInd.
  Variable P : ty -> Prop.
  Hypothesis HP : forall tn c p b, P (TPlain tn c p b).
  Hypothesis HT : forall ns n ps c p, Forall P ps -> P (TTempl ns n ps c p).
  Fixpoint ty_ind' (t : ty) : P t :=
    match t with
    | TPlain tn c p b => HP tn c p b
    | TTempl ns n ps c p =>
      HT ns n ps c p
         ((fix go (l : list ty) : Forall P l :=
             match l with
             | [] => Forall_nil P
             | x :: r => Forall_cons x (ty_ind' x) (go r)
             end) ps)
    end.
End TyInd.

Lemma mem_str_index_of : forall x l, mem_str x l = true -> exists k, index_of x l = Some k /\ k < length l.
Proof.
  intros x l; induction l as [|y l IH]; cbn [mem_str index_of length]; intros H.
  - discriminate.
  - destruct (String.eqb x y) eqn:E.
    + exists 0. split; [reflexivity | lia].
    + destruct (IH H) as [k [Hk Hlt]]. rewrite Hk. exists (S k). split; [reflexivity | lia].
Qed.

Lemma mem_str_false_index_of : forall x l, mem_str x l = false -> index_of x l = None.
Proof.
  intros x l; induction l as [|y l IH]; cbn [mem_str index_of]; intros H.
  - reflexivity.
  - destruct (String.eqb x y); [discriminate|]. rewrite (IH H). reflexivity.
Qed.

Lemma nth_inst_nth_error : forall k insts, k < length insts -> nth_error insts k = Some (nth_inst k insts).
Proof.
  intros k insts H. unfold nth_inst. apply nth_error_nth'. exact H.
Qed.

Lemma join_path : forall ns n, join "::" (ns ++ [n]) = (ns_prefix ns ++ n)%string.
Proof.
  intros ns n. unfold join, ns_prefix, join.
  induction ns as [|a ns IH].
  - reflexivity.
  - destruct ns as [|b ns'].
    + cbn [app String.concat]. rewrite append_assoc. reflexivity.
    + change ((a :: b :: ns') ++ [n]) with (a :: (b :: ns') ++ [n]).
      change (String.concat "::" (a :: (b :: ns') ++ [n]))
        with (a ++ "::" ++ String.concat "::" ((b :: ns') ++ [n]))%string.
      rewrite IH.
      change (String.concat "::" (a :: b :: ns'))
        with (a ++ "::" ++ String.concat "::" (b :: ns'))%string.
      rewrite !append_assoc. reflexivity.
Qed.

Section Proofs.
  Variable q : quirks.
  Variable tnames : list string.
  Variable insts : list typename.
  Variable cpp : option typename.
  Variable icls : option typename.
  Variable this_cpp : string.
  Hypothesis Hlen : length tnames = length insts.
  (* whatever Typename the caller supplies for `This` prints as this_cpp *)
  Hypothesis Hthis : tn_cpp (match icls with
                             | Some x => x
                             | None => match cpp with Some x => x | None => Typename [] (NStr "") [] end
                             end) = this_cpp.

  Notation sigma := (sigma tnames insts).
  Notation subst_cpp := (subst_cpp tnames insts this_cpp).
  Notation free_of := (free_of tnames).
  Notation dom_ty := (dom_ty tnames insts).

  Lemma sigma_param : forall n, is_param tnames n = true ->
    exists k, index_of n tnames = Some k /\ sigma n = Some (nth_inst k insts).
  Proof.
    intros n H. destruct (mem_str_index_of _ _ H) as [k [Hk Hlt]].
    exists k. split; [exact Hk|]. unfold Subst.sigma. rewrite Hk.
    apply nth_inst_nth_error. lia.
  Qed.

  Lemma sigma_not_param : forall n, is_param tnames n = false -> sigma n = None.
  Proof.
    intros n H. unfold Subst.sigma. rewrite (mem_str_false_index_of _ _ H). reflexivity.
  Qed.

  Lemma subst_head_plain : forall c, plain_comp tnames c = true -> subst_head tnames insts this_cpp c = c.
  Proof.
    intros c H. unfold plain_comp in H. apply negb_true_iff in H. apply orb_false_iff in H.
    destruct H as [Hp Ht]. unfold subst_head. rewrite (sigma_not_param _ Hp). rewrite Ht. reflexivity.
  Qed.

  Lemma subst_path_plain : forall ns n, forallb (plain_comp tnames) (ns ++ [n]) = true ->
    subst_path tnames insts this_cpp (ns ++ [n]) = join "::" (ns ++ [n]).
  Proof.
    intros ns n H. destruct ns as [|a ns]; cbn [app] in *; cbn [forallb] in H;
      apply andb_true_iff in H; destruct H as [Ha _]; unfold subst_path;
      rewrite (subst_head_plain _ Ha); reflexivity.
  Qed.

  (* a type without parameters is left as it is *)
  Lemma free_of_subst : forall t, free_of t = true -> subst_cpp t = ty_cpp t.
  Proof.
    induction t as [tn c p b | ns n ps c p IH] using ty_ind'; intros H.
    - destruct tn as [ns n ins]. cbn [Subst.free_of] in H.
      destruct n as [n|]; [|discriminate]. destruct ins; [|discriminate].
      cbn [Subst.subst_cpp ty_cpp nm_str tn_cpp tn_args_cpp].
      rewrite (subst_path_plain _ _ H). rewrite join_path.
      rewrite append_empty_r. reflexivity.
    - cbn [Subst.free_of] in H. destruct n as [n|]; [|discriminate].
      apply andb_true_iff in H. destruct H as [Hc Hps].
      cbn [Subst.subst_cpp ty_cpp nm_str].
      rewrite (subst_path_plain _ _ Hc).
      assert (Hm : map subst_cpp ps = map ty_cpp ps).
      { clear Hc. induction ps as [|x r IHr]; [reflexivity|].
        cbn [forallb] in Hps. apply andb_true_iff in Hps. destruct Hps as [Hx Hr].
        inversion IH as [|? ? Px Pr]; subst. cbn [map]. rewrite (Px Hx). rewrite (IHr Pr Hr). reflexivity. }
      rewrite Hm. reflexivity.
  Qed.

  Lemma free_of_rewrite : forall p, free_of p = true -> rewrite_param tnames insts p = p.
  Proof.
    intros p H. destruct p as [[ns n ins] c q' b | ns n ps c q'].
    - cbn [Subst.free_of] in H. destruct n as [n|]; [|discriminate]. destruct ins; [|discriminate].
      cbn [rewrite_param].
      assert (Hn : is_param tnames n = false).
      { rewrite forallb_app in H. apply andb_true_iff in H. destruct H as [_ H]. cbn in H.
        rewrite andb_true_r in H. unfold plain_comp in H. apply negb_true_iff in H.
        apply orb_false_iff in H. tauto. }
      rewrite (mem_str_false_index_of _ _ Hn). reflexivity.
    - cbn [Subst.free_of] in H. destruct n as [n|]; [|discriminate].
      apply andb_true_iff in H. destruct H as [H _]. cbn [rewrite_param].
      assert (Hn : is_param tnames n = false).
      { rewrite forallb_app in H. apply andb_true_iff in H. destruct H as [_ H]. cbn in H.
        rewrite andb_true_r in H. unfold plain_comp in H. apply negb_true_iff in H.
        apply orb_false_iff in H. tauto. }
      rewrite (mem_str_false_index_of _ _ Hn). reflexivity.
  Qed.

  (* a first-level template argument: parameter replaced, qualifiers of the occurrence kept *)
  Lemma param_arg : forall p, orb (whole_param tnames p) (free_of p) = true ->
    ty_cpp (rewrite_param tnames insts p) = subst_cpp p.
  Proof.
    intros p H. apply orb_true_iff in H. destruct H as [H|H].
    - destruct p as [[ns n ins] c q' b | ]; [|discriminate].
      cbn [whole_param] in H. destruct ns; [|discriminate]. destruct n as [n|]; [|discriminate].
      destruct ins; [|discriminate].
      destruct (sigma_param _ H) as [k [Hk Hs]].
      cbn [rewrite_param]. rewrite Hk.
      cbn [ty_cpp Subst.subst_cpp tn_cpp nm_str app tn_args_cpp subst_path ns_prefix].
      unfold subst_head. rewrite Hs. unfold join. cbn [String.concat].
      rewrite append_empty_r. reflexivity.
    - rewrite (free_of_rewrite _ H). symmetry. apply free_of_subst. exact H.
  Qed.

  Lemma guards_elim : forall s, guards tnames s = true ->
    scoped_template tnames s = None /\ index_of s tnames = None /\ contains "This" s = false.
  Proof.
    intros s H. unfold guards in H.
    apply andb_true_iff in H. destruct H as [H1 H]. apply andb_true_iff in H. destruct H as [H2 H3].
    destruct (scoped_template tnames s); [discriminate|].
    destruct (index_of s tnames); [discriminate|].
    apply negb_true_iff in H3. auto.
  Qed.

  Lemma scoped_no_colons : forall l k s, contains "::" s = false -> scoped_template_aux l k s = None.
  Proof.
    induction l as [|t l IH]; intros k s H; cbn [scoped_template_aux]; [reflexivity|].
    rewrite H. cbn [andb]. apply IH. exact H.
  Qed.

  (* ---- main refinement lemma ---- *)
  Theorem inst_type_refines : forall t, dom_ty t = true ->
    ty_cpp (inst_type_impl q tnames insts cpp icls t) = subst_cpp t.
  Proof.
    intros t Hd. destruct t as [[ns n ins] c p b | ns n ps c p].
    - (* plain type *)
      destruct n as [n|]; [|destruct ns; discriminate].
      destruct ins as [|i ins]; [|destruct ns; discriminate].
      destruct ns as [|a ns].
      + cbn [Subst.dom_ty] in Hd.
        destruct (is_param tnames n) eqn:Hp.
        * (* whole-name parameter *)
          apply negb_true_iff in Hd.
          destruct (sigma_param _ Hp) as [k [Hk Hs]].
          unfold inst_type_impl. cbn [ty_const ty_ptr ty_basic ty_typename tn_cpp nm_str ns_prefix].
          cbn [append]. unfold scoped_template. rewrite (scoped_no_colons _ _ _ Hd).
          rewrite Hk. cbn [ty_cpp Subst.subst_cpp app nm_str subst_path tn_args_cpp].
          unfold subst_head. rewrite Hs. unfold join. cbn [String.concat].
          rewrite append_empty_r. reflexivity.
        * destruct (String.eqb n "This") eqn:Ht.
          -- (* This *)
             apply String.eqb_eq in Ht. subst n.
             unfold inst_type_impl. cbn [ty_const ty_ptr ty_basic ty_typename tn_cpp nm_str ns_prefix].
             cbn [append].
             destruct (scoped_template tnames "This") eqn:Hsc; [discriminate|].
             rewrite (mem_str_false_index_of _ _ Hp).
             cbn [String.eqb Ascii.eqb Bool.eqb andb].
             cbn [ty_cpp Subst.subst_cpp app nm_str subst_path tn_args_cpp].
             unfold subst_head. rewrite (sigma_not_param _ Hp). cbn [String.eqb Ascii.eqb Bool.eqb andb].
             unfold join. cbn [String.concat]. rewrite append_empty_r.
             rewrite Hthis. reflexivity.
          -- (* an ordinary unqualified name *)
             destruct (guards_elim _ Hd) as [G1 [G2 G3]].
             unfold inst_type_impl. cbn [ty_const ty_ptr ty_basic ty_typename tn_cpp nm_str ns_prefix].
             cbn [append]. rewrite G1, G2, Ht, G3.
             cbn [ty_cpp Subst.subst_cpp app nm_str subst_path tn_args_cpp tn_cpp ns_prefix].
             unfold subst_head. rewrite (sigma_not_param _ Hp). rewrite Ht.
             unfold join. cbn [String.concat append]. rewrite ?append_empty_r. reflexivity.
      + (* qualified name without parameters *)
        cbn [Subst.dom_ty] in Hd. apply andb_true_iff in Hd. destruct Hd as [Hf Hg].
        destruct (guards_elim _ Hg) as [G1 [G2 G3]].
        unfold inst_type_impl. cbn [ty_const ty_ptr ty_basic ty_typename].
        rewrite G1, G2.
        assert (Hne : String.eqb (tn_cpp (Typename (a :: ns) (NStr n) [])) "This" = false).
        { destruct (String.eqb (tn_cpp (Typename (a :: ns) (NStr n) [])) "This") eqn:E; [|reflexivity].
          apply String.eqb_eq in E. rewrite E in G3. cbn in G3. discriminate. }
        rewrite Hne, G3.
        symmetry. apply free_of_subst. exact Hf.
    - (* templated type *)
      destruct n as [n|]; [|discriminate].
      cbn [Subst.dom_ty] in Hd.
      apply andb_true_iff in Hd. destruct Hd as [Hc Hd].
      apply andb_true_iff in Hd. destruct Hd as [Hps Hg].
      destruct (guards_elim _ Hg) as [G1 [G2 G3]].
      cbn [first_level] in G1, G2, G3.
      unfold inst_type_impl. cbn [ty_const ty_ptr ty_basic].
      rewrite G1, G2.
      assert (Hne : String.eqb (tn_cpp (ty_typename (TTempl ns (NStr n) (map (rewrite_param tnames insts) ps) c p))) "This" = false).
      { match goal with |- String.eqb ?x _ = false => destruct (String.eqb x "This") eqn:E; [|reflexivity] end.
        apply String.eqb_eq in E. rewrite E in G3. cbn in G3. discriminate. }
      rewrite Hne, G3.
      cbn [ty_cpp Subst.subst_cpp nm_str].
      rewrite (subst_path_plain _ _ Hc).
      assert (Hm : forall l, forallb (fun p => orb (whole_param tnames p) (free_of p)) l = true ->
                             map ty_cpp (map (rewrite_param tnames insts) l) = map subst_cpp l).
      { induction l as [|x r IHr]; intros Hl; [reflexivity|].
        cbn [forallb] in Hl. apply andb_true_iff in Hl. destruct Hl as [Hx Hr].
        cbn [map]. rewrite (param_arg _ Hx). rewrite (IHr Hr). reflexivity. }
      rewrite (Hm _ Hps). reflexivity.
  Qed.

  (* qualifiers are never touched, on any input *)
  Theorem inst_type_quals : forall t,
    ty_const (inst_type_impl q tnames insts cpp icls t) = ty_const t /\
    ty_ptr (inst_type_impl q tnames insts cpp icls t) = ty_ptr t.
  Proof.
    intros t. unfold inst_type_impl.
    set (t1 := match t with TTempl ns n ps c p => TTempl ns n (map (rewrite_param tnames insts) ps) c p | _ => t end).
    assert (Hc : ty_const t1 = ty_const t) by (destruct t; reflexivity).
    assert (Hp : ty_ptr t1 = ty_ptr t) by (destruct t; reflexivity).
    destruct (scoped_template tnames (tn_cpp (ty_typename t1))) as [[tm idx]|].
    - destruct (nth_inst idx insts). destruct t1; cbn [ty_const ty_ptr]; auto.
    - destruct (index_of (tn_cpp (ty_typename t1)) tnames).
      + cbn [ty_const ty_ptr]; auto.
      + destruct (String.eqb (tn_cpp (ty_typename t1)) "This").
        * cbn [ty_const ty_ptr]; auto.
        * destruct (contains "This" (tn_cpp (ty_typename t1))); [|auto].
          destruct t1 as [[ns n ins] c' p' b' | ns n ps c' p'].
          -- destruct (mem_str "This" ns); cbn [ty_const ty_ptr] in *; auto.
          -- destruct (mem_str "This" ns); cbn [ty_const ty_ptr] in *; auto.
  Qed.
  (* ---- the structural substitution (spec mode of the model) prints as subst_cpp, unconditionally ---- *)
  Fixpoint parsed_ty (t : ty) : bool :=
    match t with
    | TPlain (Typename _ (NStr _) []) _ _ _ => true
    | TTempl _ (NStr _) ps _ _ => forallb parsed_ty ps
    | _ => false
    end.

  Variable this_tn : typename.
  Hypothesis Hthis_tn : tn_cpp this_tn = this_cpp.

  Lemma sigma_tn_head : forall h,
    match sigma_tn tnames insts this_tn h with
    | Some x => subst_head tnames insts this_cpp h = tn_cpp x
    | None => subst_head tnames insts this_cpp h = h
    end.
  Proof.
    intros h. unfold sigma_tn, subst_head, Subst.sigma.
    destruct (index_of h tnames) as [k|] eqn:E.
    - assert (Hk : k < length insts).
      { rewrite <- Hlen. clear - E. revert k E. induction tnames as [|y l IH]; intros k E; [discriminate|].
        cbn [index_of] in E. destruct (String.eqb h y); [inversion E; cbn; lia|].
        destruct (index_of h l) as [k'|]; [|discriminate]. inversion E. specialize (IH k' eq_refl). cbn. lia. }
      rewrite (nth_inst_nth_error _ _ Hk). reflexivity.
    - destruct (String.eqb h "This"); [symmetry; exact Hthis_tn | reflexivity].
  Qed.

  Theorem subst_ty_spec : forall t, parsed_ty t = true ->
    ty_cpp (subst_ty tnames insts this_tn t) = subst_cpp t.
  Proof.
    induction t as [tn c p b | ns n ps c p IH] using ty_ind'; intros H.
    - destruct tn as [ns n ins]. cbn [parsed_ty] in H.
      destruct n as [n|]; [|discriminate]. destruct ins; [|discriminate].
      cbn [subst_ty Subst.subst_cpp nm_str tn_args_cpp]. rewrite append_empty_r.
      destruct (ns ++ [n]) as [|h rest] eqn:E.
      + destruct ns; discriminate.
      + unfold subst_path. pose proof (sigma_tn_head h) as Hh.
        destruct (sigma_tn tnames insts this_tn h) as [x|].
        * rewrite Hh. destruct rest.
          -- cbn [ty_cpp]. unfold join. cbn [String.concat]. reflexivity.
          -- cbn [ty_cpp tn_cpp nm_str ns_prefix]. reflexivity.
        * rewrite Hh. cbn [ty_cpp tn_cpp nm_str]. rewrite <- E. rewrite join_path. reflexivity.
    - cbn [parsed_ty] in H. destruct n as [n|]; [|discriminate].
      assert (Hm : map ty_cpp (map (subst_ty tnames insts this_tn) ps) = map subst_cpp ps).
      { induction ps as [|x r IHr]; [reflexivity|].
        cbn [forallb] in H. apply andb_true_iff in H. destruct H as [Hx Hr].
        inversion IH as [|? ? Px Pr]; subst. cbn [map]. rewrite (Px Hx). rewrite (IHr Pr Hr). reflexivity. }
      cbn [subst_ty Subst.subst_cpp nm_str].
      destruct (ns ++ [n]) as [|h rest] eqn:E.
      + destruct ns; discriminate.
      + unfold subst_path. pose proof (sigma_tn_head h) as Hh.
        destruct (sigma_tn tnames insts this_tn h) as [x|].
        * rewrite Hh. cbn [ty_cpp nm_str app]. rewrite Hm.
          unfold join. cbn [String.concat]. reflexivity.
        * rewrite Hh. cbn [ty_cpp nm_str]. rewrite Hm. rewrite <- E. reflexivity.
  Qed.
End Proofs.

(* ---- both modes of the model's inst_type ---- *)
Definition dom_q (q : quirks) (tnames : list string) (insts : list typename) (t : ty) : bool :=
  if q_first_level_only q then dom_ty tnames insts t else parsed_ty t.

Definition this_of (cpp icls : option typename) : typename :=
  match icls with
  | Some x => x
  | None => match cpp with Some x => x | None => Typename [] (NStr "") [] end
  end.

Theorem inst_type_refines_q : forall q tnames insts cpp icls this_cpp,
  length tnames = length insts -> tn_cpp (this_of cpp icls) = this_cpp ->
  forall t, dom_q q tnames insts t = true ->
  ty_cpp (inst_type q tnames insts cpp icls t) = subst_cpp tnames insts this_cpp t.
Proof.
  intros q tnames insts cpp icls this_cpp Hlen Hthis t Hd. unfold inst_type, dom_q in *.
  destruct (q_first_level_only q).
  - apply (inst_type_refines q tnames insts cpp icls this_cpp Hlen Hthis t Hd).
  - apply (subst_ty_spec tnames insts cpp icls this_cpp Hlen Hthis (this_of cpp icls) Hthis t Hd).
Qed.

Lemma subst_ty_quals : forall tnames insts this_tn t,
  ty_const (subst_ty tnames insts this_tn t) = ty_const t /\
  ty_ptr (subst_ty tnames insts this_tn t) = ty_ptr t.
Proof.
  intros tnames insts this_tn t. destruct t as [[ns n ins] c p b | ns n ps c p].
  - destruct n as [n|]; [|split; reflexivity]. destruct ins; [|split; reflexivity].
    cbn [subst_ty]. destruct (ns ++ [n]) as [|h rest]; [split; reflexivity|].
    destruct (sigma_tn tnames insts this_tn h); [|split; reflexivity].
    destruct rest; split; reflexivity.
  - destruct n as [n|]; [|split; reflexivity].
    cbn [subst_ty]. destruct (ns ++ [n]) as [|h rest]; [split; reflexivity|].
    destruct (sigma_tn tnames insts this_tn h); split; reflexivity.
Qed.

Theorem inst_type_quals_q : forall q tnames insts cpp icls t,
  ty_const (inst_type q tnames insts cpp icls t) = ty_const t /\
  ty_ptr (inst_type q tnames insts cpp icls t) = ty_ptr t.
Proof.
  intros. unfold inst_type. destruct (q_first_level_only q).
  - apply inst_type_quals.
  - apply subst_ty_quals.
Qed.

(* C03: the generated bindings are, up to order, exactly the declared ones. *)
From Coq Require Import String Ascii List Bool Arith Lia Permutation.
From Wrap Require Import Base.Str Base.StrLemmas Base.ListX Syntax.Ast Syntax.Print Inst.Model Inst.Proj
     Pybind.Items Pybind.Gen Pybind.Spec.
From Wrap Require gen.Tables.
Import ListNotations.
Open Scope string_scope.
Open Scope list_scope.

(* induction principle for item with Forall on namespace content *)
Section ItemInd.
  Variable P : item -> Prop.
  Hypothesis Hc : forall c, P (IClass c).
  Hypothesis Hf : forall f, P (IFun f).
  Hypothesis Hd : forall d, P (IDecl d).
  Hypothesis Hw : forall f, P (IFwd f).
  Hypothesis Hi : forall h, P (IInclude h).
  Hypothesis He : forall e, P (IEnum e).
  Hypothesis Hv : forall v, P (IVar v).
  Hypothesis Hn : forall n content, Forall P content -> P (INamespace n content).
  Fixpoint item_ind' (i : item) : P i :=
    match i with
    | IClass c => Hc c | IFun f => Hf f | IDecl d => Hd d | IFwd f => Hw f
    | IInclude h => Hi h | IEnum e => He e | IVar v => Hv v
    | INamespace n content =>
      Hn n content ((fix go (l : list item) : Forall P l :=
                       match l with [] => Forall_nil P | x :: r => Forall_cons x (item_ind' x) (go r) end) content)
    end.
End ItemInd.

Lemma perm_flat_map_split : forall (A B : Type) (f g : A -> list B) (l : list A),
  Permutation (flat_map f l ++ flat_map g l) (flat_map (fun x => f x ++ g x) l).
Proof.
  intros A B f g l. induction l as [|x l IH]; [constructor|].
  cbn [flat_map]. rewrite <- !app_assoc.
  apply Permutation_app_head.
  apply Permutation_trans with (g x ++ flat_map f l ++ flat_map g l).
  - rewrite !app_assoc. apply Permutation_app_tail. apply Permutation_app_comm.
  - apply Permutation_app_head. exact IH.
Qed.

Section C03.
  Variable q : pquirks.
  Variable c : cfg.
  Variable doc : option (string -> string -> list string -> string).
  Notation kws := (Gen.kws q).

  Lemma sig_types_lparams : forall args, sig_types (lparams_of args) = types_of args.
  Proof.
    intros args. unfold sig_types, types_of, lparams_of, args_cpp. rewrite map_map. reflexivity.
  Qed.

  Lemma method_gen_keys : forall is_method name cpp_method r args cpp,
    map (fun m => in_class cpp (member_key m))
        (fst (wrap_method_gen q c doc is_method name cpp_method r args cpp ""))
    = method_keys c kws (negb is_method) cpp name cpp_method args.
  Proof.
    intros. unfold wrap_method_gen, method_keys.
    destruct (orb (String.eqb cpp_method "serialize") (String.eqb cpp_method "serializable")).
    - destruct (boost c); reflexivity.
    - rewrite append_empty_r. unfold py_method_name, escape_keyword.
      destruct (String.eqb name "print"); cbn [fst map member_key in_class fst snd];
        rewrite ?sig_types_lparams; destruct is_method; reflexivity.
  Qed.

  (* the gtsam::Values::insert special case does not apply *)
  Definition insert_special (cpp name : string) (args : list arg) : bool :=
    andb (String.eqb name "insert") (andb (String.eqb cpp "gtsam::Values") (first_is_size_t args)).

  Lemma with_insert_keys : forall is_method name cpp_method r args cpp,
    andb (q_values_insert q) (insert_special cpp name args) = false ->
    map (fun m => in_class cpp (member_key m))
        (fst (wrap_with_insert q c doc is_method name cpp_method r args cpp))
    = method_keys c kws (negb is_method) cpp name cpp_method args.
  Proof.
    intros is_method name cpp_method r args cpp H. unfold wrap_with_insert.
    unfold insert_special in H. rewrite H. cbn [fst app]. apply method_gen_keys.
  Qed.

  Definition dom_class (k : iclass) : bool :=
    let cpp := iclass_cpp k in
    andb (forallb (fun m => negb (andb (q_values_insert q) (insert_special cpp (im_name m) (im_args m)))) (ic_methods k))
    (andb (forallb (fun m => negb (andb (q_values_insert q) (insert_special cpp (is_name m) (is_args m)))) (ic_statics k))
          (* an ignored class has no enums, or the quirk is repaired *)
          (orb (negb (andb (q_ignored_enums q) (mem_str cpp (ignore c))))
               (match ic_enums k with [] => true | _ => false end))).

  Lemma flat_map_keys_methods : forall cpp (l : list imethod),
    forallb (fun m => negb (andb (q_values_insert q) (insert_special cpp (im_name m) (im_args m)))) l = true ->
    map (fun m => in_class cpp (member_key m)) (fst (concat_pairs (map (wrap_imethod q c doc cpp) l)))
    = flat_map (fun m => method_keys c kws false cpp (im_name m) (imethod_cpp m) (im_args m)) l.
  Proof.
    intros cpp l H. unfold concat_pairs. cbn [fst]. induction l as [|m l IH]; [reflexivity|].
    cbn [forallb] in H. apply andb_true_iff in H. destruct H as [Hm Hl]. apply negb_true_iff in Hm.
    cbn [map flat_map]. rewrite map_app. rewrite (IH Hl). f_equal.
    unfold wrap_imethod. apply (with_insert_keys true _ _ _ _ _ Hm).
  Qed.

  Lemma flat_map_keys_statics : forall cpp (l : list ismethod),
    forallb (fun m => negb (andb (q_values_insert q) (insert_special cpp (is_name m) (is_args m)))) l = true ->
    map (fun m => in_class cpp (member_key m)) (fst (concat_pairs (map (wrap_ismethod q c doc cpp) l)))
    = flat_map (fun m => method_keys c kws true cpp (is_name m) (ismethod_cpp m) (is_args m)) l.
  Proof.
    intros cpp l H. unfold concat_pairs. cbn [fst]. induction l as [|m l IH]; [reflexivity|].
    cbn [forallb] in H. apply andb_true_iff in H. destruct H as [Hm Hl]. apply negb_true_iff in Hm.
    cbn [map flat_map]. rewrite map_app. rewrite (IH Hl). f_equal.
    unfold wrap_ismethod. apply (with_insert_keys false _ _ _ _ _ Hm).
  Qed.

  Lemma wrap_op_key : forall cpp o, in_class cpp (member_key (wrap_op cpp o)) = op_key cpp o.
  Proof.
    intros cpp o. unfold wrap_op, op_key.
    destruct (String.eqb (o_sym o) "[]"); [reflexivity|].
    destruct (String.eqb (o_sym o) "()"); [reflexivity|].
    destruct (o_args o); reflexivity.
  Qed.

  Lemma class_enum_keys : forall cpp inst l,
    flat_map item_keys (map (fun e => BClassEnum (class_enum cpp inst e)) l)
    = flat_map (fun e => (inst, KEnum, e_name e)
                           :: map (fun v => ((cpp ++ "::" ++ e_name e)%string, KValue, v)) (e_items e)) l.
  Proof. intros. induction l as [|e l IH]; [reflexivity|]. cbn [map flat_map]. rewrite IH. reflexivity. Qed.

  (* one class: the same keys in the same order *)
  Lemma wrap_class_keys : forall k, dom_class k = true ->
    keys (fst (wrap_class q c doc k)) = class_keys c kws k.
  Proof.
    intros k H. unfold dom_class in H.
    apply andb_true_iff in H. destruct H as [Hm H]. apply andb_true_iff in H. destruct H as [Hs He].
    unfold wrap_class, class_keys, ignored.
    destruct (mem_str (iclass_cpp k) (ignore c)) eqn:Hi.
    - destruct (q_ignored_enums q) eqn:Hq; [|reflexivity].
      cbn [andb negb orb] in He. destruct (ic_enums k); [reflexivity | discriminate].
    - unfold keys. cbn [fst flat_map item_keys].
      rewrite class_enum_keys.
      rewrite !map_app. rewrite !map_map.
      rewrite (flat_map_keys_methods _ _ Hm), (flat_map_keys_statics _ _ Hs).
      cbn [app]. f_equal. rewrite <- !app_assoc.
      apply f_equal2; [apply map_ext; intros; reflexivity|].
      apply f_equal2; [reflexivity|].
      apply f_equal2; [reflexivity|].
      apply f_equal2; [apply map_ext; intros; reflexivity|].
      apply f_equal2; [apply map_ext; intros; reflexivity|].
      apply f_equal2; [|reflexivity].
      apply map_ext. intros o. apply wrap_op_key.
  Qed.

  (* ---------------- namespaces ---------------- *)
  Fixpoint dom_item (i : item) : bool :=
    match i with
    | IClass k => dom_class k
    | INamespace _ content => forallb dom_item content
    | _ => true
    end.

  Lemma prefix_partial : forall t ns, is_prefix_str t ns = andb (partial_match ns t) (Nat.leb (length t) (length ns)).
  Proof.
    induction t as [|a t IH]; intros ns.
    - destruct ns; reflexivity.
    - destruct ns as [|b ns]; [reflexivity|].
      cbn [is_prefix_str partial_match length]. rewrite IH.
      rewrite (String.eqb_sym a b). destruct (String.eqb b a); reflexivity.
  Qed.

  Lemma partial_false_ext : forall ns t more, partial_match ns t = false -> is_prefix_str t (ns ++ more) = false.
  Proof.
    induction ns as [|b ns IH]; intros t more H.
    - destruct t; discriminate.
    - destruct t as [|a t]; [discriminate|].
      cbn [partial_match] in H. cbn [app is_prefix_str].
      rewrite (String.eqb_sym a b). destruct (String.eqb b a); [apply IH; exact H | reflexivity].
  Qed.

  Definition inv (ns : list string) (inside : bool) : Prop :=
    partial_match ns (top c) = true /\ inside = negb (Nat.ltb (length ns) (length (top c))).

  Lemma inv_under_top : forall ns inside, inv ns inside -> under_top c ns = inside.
  Proof.
    intros ns inside [Hp Hi]. unfold under_top. rewrite prefix_partial, Hp, Hi. cbn [andb].
    destruct (Nat.ltb_spec (length ns) (length (top c))); destruct (Nat.leb_spec (length (top c)) (length ns)); try reflexivity; lia.
  Qed.

  (* below a namespace that leaves the path to the top namespace nothing is declared *)
  Lemma declared_outside : forall i ns,
    (forall more, under_top c (ns ++ more) = false) -> declared_item c kws ns i = [].
  Proof.
    induction i as [k|f|d|f|h|e|v|n content IH] using item_ind'; intros ns H;
      pose proof (H []) as Hn; rewrite app_nil_r in Hn;
      cbn [declared_item]; rewrite ?Hn; cbn [andb]; try reflexivity.
    rewrite (H [n]).
    assert (H' : forall more, under_top c ((ns ++ [n]) ++ more) = false)
      by (intros more; rewrite <- app_assoc; apply H).
    induction content as [|x r IHr]; [reflexivity|].
    inversion IH as [|? ? Px Pr]; subst. rewrite (Px _ H'). cbn [app]. apply IHr. exact Pr.
  Qed.

  Definition fun_keys (ns : list string) (inside : bool) (i : item) : list key :=
    match i with
    | IFun f => if inside then item_keys (wrap_function q ns (module_var c ns) f) else []
    | _ => []
    end.

  Lemma keys_app : forall a b, keys (a ++ b) = keys a ++ keys b.
  Proof. intros. unfold keys. apply flat_map_app. Qed.

  Lemma perm_flat_map_pointwise : forall (A B : Type) (f g : A -> list B) (l : list A),
    Forall (fun x => Permutation (f x) (g x)) l -> Permutation (flat_map f l) (flat_map g l).
  Proof.
    intros A B f g l H. induction H as [|x l Hx Hl IH]; [constructor|].
    cbn [flat_map]. apply Permutation_app; assumption.
  Qed.

  Theorem wrap_item_declared : forall i ns inside,
    inv ns inside -> dom_item i = true ->
    Permutation (keys (o_items (wrap_item q c doc ns inside i)) ++ fun_keys ns inside i)
                (declared_item c kws ns i).
  Proof.
    induction i as [k|f|d|f|h|e|v|n content IH] using item_ind'; intros ns inside Hinv Hdom;
      pose proof (inv_under_top _ _ Hinv) as Hu.
    - (* class *)
      cbn [wrap_item declared_item fun_keys]. rewrite Hu, app_nil_r. destruct inside; [|constructor].
      cbn [o_items]. cbn [dom_item] in Hdom. rewrite (wrap_class_keys _ Hdom). apply Permutation_refl.
    - (* function: emitted by the enclosing namespace *)
      cbn [wrap_item declared_item fun_keys o_items out_nil keys flat_map app]. rewrite Hu.
      destruct inside; [|constructor].
      unfold wrap_function. cbn [item_keys]. rewrite sig_types_lparams. apply Permutation_refl.
    - cbn [wrap_item declared_item fun_keys]. rewrite Hu, app_nil_r. destruct inside; [|constructor].
      unfold ignored. destruct (mem_str (idecl_cpp d) (ignore c)); cbn; apply Permutation_refl.
    - cbn. constructor.
    - cbn. constructor.
    - cbn [wrap_item declared_item fun_keys]. rewrite Hu, app_nil_r. destruct inside; [|constructor].
      cbn. rewrite ?app_nil_r. apply Permutation_refl.
    - cbn [wrap_item declared_item fun_keys]. rewrite Hu, app_nil_r. destruct inside; [|constructor].
      destruct (v_default v); cbn; rewrite ?app_nil_r; apply Permutation_refl.
    - (* namespace *)
      cbn [fun_keys]. rewrite app_nil_r. cbn [wrap_item declared_item].
      set (ns' := ns ++ [n]).
      destruct (partial_match ns' (top c)) eqn:Hpm; cbn [negb].
      2:{ (* pruned subtree *)
        assert (Hout : forall more, under_top c (ns' ++ more) = false)
          by (intros more; apply partial_false_ext; exact Hpm).
        rewrite <- (app_nil_r ns'). rewrite (Hout []). rewrite app_nil_r.
        assert (E : forall l, (fix go (l0 : list item) : list key :=
                       match l0 with [] => [] | x :: r => declared_item c kws ns' x ++ go r end) l = []).
        { induction l as [|x r IHr]; [reflexivity|]. rewrite (declared_outside x ns' Hout). exact IHr. }
        rewrite E. constructor. }
      set (inside' := negb (Nat.ltb (length ns') (length (top c)))).
      assert (Hinv' : inv ns' inside') by (split; [exact Hpm | reflexivity]).
      pose proof (inv_under_top _ _ Hinv') as Hu'. rewrite Hu'.
      cbn [dom_item] in Hdom.
      (* the two local loops as flat_maps *)
      assert (Ebody : forall l, o_items ((fix go (l0 : list item) : out :=
                        match l0 with [] => out_nil | x :: r => out_app (wrap_item q c doc ns' inside' x) (go r) end) l)
                      = flat_map (fun x => o_items (wrap_item q c doc ns' inside' x)) l).
      { induction l as [|x r IHr]; [reflexivity|]. cbn [out_app o_items flat_map]. rewrite IHr. reflexivity. }
      assert (Edecl : forall l, (fix go (l0 : list item) : list key :=
                        match l0 with [] => [] | x :: r => declared_item c kws ns' x ++ go r end) l
                      = flat_map (declared_item c kws ns') l).
      { induction l as [|x r IHr]; [reflexivity|]. cbn [flat_map]. rewrite IHr. reflexivity. }
      rewrite Edecl.
      assert (Hpt : Forall (fun x => Permutation (keys (o_items (wrap_item q c doc ns' inside' x)) ++ fun_keys ns' inside' x)
                                                 (declared_item c kws ns' x)) content).
      { clear - IH Hdom Hinv'. induction content as [|x r IHr]; [constructor|].
        inversion IH as [|? ? Px Pr]; subst. cbn [forallb] in Hdom. apply andb_true_iff in Hdom.
        destruct Hdom as [Hx Hr]. constructor; [apply Px; assumption | apply IHr; assumption]. }
      assert (Hkeys_body : forall l, keys (flat_map (fun x => o_items (wrap_item q c doc ns' inside' x)) l)
                                     = flat_map (fun x => keys (o_items (wrap_item q c doc ns' inside' x))) l).
      { induction l as [|x r IHr]; [reflexivity|]. cbn [flat_map]. rewrite keys_app, IHr. reflexivity. }
      destruct inside' eqn:Hin.
      + (* inside the top namespace: submodule, body, functions *)
        cbn [out_app out_items o_items]. rewrite !keys_app. rewrite Ebody, Hkeys_body.
        assert (Hfuns : keys (flat_map (fun x => match x with
                                                 | IFun f => [wrap_function q ns' (module_var c ns') f]
                                                 | _ => []
                                                 end) content)
                        = flat_map (fun_keys ns' true) content).
        { clear. induction content as [|x r IHr]; [reflexivity|]. cbn [flat_map]. rewrite keys_app, IHr.
          destruct x; cbn [fun_keys keys flat_map app]; rewrite ?app_nil_r; reflexivity. }
        rewrite Hfuns.
        apply Permutation_app.
        * destruct (Nat.ltb (length (top c)) (length ns')); cbn; apply Permutation_refl.
        * eapply Permutation_trans; [apply perm_flat_map_split|].
          apply perm_flat_map_pointwise. exact Hpt.
      + (* still above the top namespace: only nested namespaces matter *)
        rewrite Ebody, Hkeys_body. cbn [app].
        eapply Permutation_trans; [|apply perm_flat_map_pointwise; exact Hpt].
        apply perm_flat_map_pointwise. clear. induction content as [|x r IHr]; constructor; [|exact IHr].
        destruct x; cbn [fun_keys]; rewrite ?app_nil_r; apply Permutation_refl.
  Qed.

  Theorem wrap_module_declared : forall content,
    partial_match [""] (top c) = true -> forallb dom_item content = true ->
    Permutation (keys (o_items (wrap_module q c doc content))) (declared c kws content).
  Proof.
    intros content Hpm Hdom. unfold wrap_module, declared. rewrite Hpm. cbn [negb].
    set (inside := negb (Nat.ltb (length [""]) (length (top c)))).
    assert (Hinv : inv [""] inside) by (split; [exact Hpm | reflexivity]).
    assert (Ebody : forall l, o_items (fold_right (fun x acc => out_app (wrap_item q c doc [""] inside x) acc) out_nil l)
                    = flat_map (fun x => o_items (wrap_item q c doc [""] inside x)) l).
    { induction l as [|x r IHr]; [reflexivity|]. cbn [fold_right out_app o_items flat_map]. rewrite IHr. reflexivity. }
    assert (Hkeys_body : forall l, keys (flat_map (fun x => o_items (wrap_item q c doc [""] inside x)) l)
                                   = flat_map (fun x => keys (o_items (wrap_item q c doc [""] inside x))) l).
    { induction l as [|x r IHr]; [reflexivity|]. cbn [flat_map]. rewrite keys_app, IHr. reflexivity. }
    assert (Hpt : Forall (fun x => Permutation (keys (o_items (wrap_item q c doc [""] inside x)) ++ fun_keys [""] inside x)
                                               (declared_item c kws [""] x)) content).
    { clear - Hdom Hinv. induction content as [|x r IHr]; [constructor|].
      cbn [forallb] in Hdom. apply andb_true_iff in Hdom. destruct Hdom as [Hx Hr].
      constructor; [apply wrap_item_declared; assumption | apply IHr; assumption]. }
    destruct inside eqn:Hin.
    - cbn [out_app out_items o_items]. rewrite keys_app, Ebody, Hkeys_body.
      assert (Hfuns : keys (flat_map (fun x => match x with
                                               | IFun f => [wrap_function q [""] (module_var c [""]) f]
                                               | _ => []
                                               end) content)
                      = flat_map (fun_keys [""] true) content).
      { clear. induction content as [|x r IHr]; [reflexivity|]. cbn [flat_map]. rewrite keys_app, IHr.
        destruct x; cbn [fun_keys keys flat_map app]; rewrite ?app_nil_r; reflexivity. }
      rewrite Hfuns.
      eapply Permutation_trans; [apply perm_flat_map_split|].
      apply perm_flat_map_pointwise. exact Hpt.
    - rewrite Ebody, Hkeys_body.
      eapply Permutation_trans; [|apply perm_flat_map_pointwise; exact Hpt].
      apply perm_flat_map_pointwise. clear. induction content as [|x r IHr]; constructor; [|exact IHr].
      destruct x; cbn [fun_keys]; rewrite ?app_nil_r; apply Permutation_refl.
  Qed.

  (* nothing ignored: no class or forward-declaration binding for a name on the ignore list *)
  Definition not_ignored_item (i : bitem) : Prop :=
    match i with
    | BClass _ cpp _ _ _ _ => mem_str cpp (ignore c) = false
    | BDecl _ cpp _ => mem_str cpp (ignore c) = false
    | _ => True
    end.

  Lemma wrap_class_not_ignored : forall k, Forall not_ignored_item (fst (wrap_class q c doc k)).
  Proof.
    intros k. unfold wrap_class, ignored.
    assert (He : forall cpp inst l, Forall not_ignored_item (map (fun e => BClassEnum (class_enum cpp inst e)) l)).
    { intros. induction l; constructor; [exact I | assumption]. }
    destruct (mem_str (iclass_cpp k) (ignore c)) eqn:Hi.
    - destruct (q_ignored_enums q); cbn [fst]; [apply He | constructor].
    - cbn [fst]. constructor; [exact Hi | apply He].
  Qed.

  Theorem wrap_item_not_ignored : forall i ns inside,
    Forall not_ignored_item (o_items (wrap_item q c doc ns inside i)).
  Proof.
    induction i as [k|f|d|f|h|e|v|n content IH] using item_ind'; intros ns inside; cbn [wrap_item].
    - destruct inside; cbn [o_items out_nil]; [apply wrap_class_not_ignored | constructor].
    - constructor.
    - destruct inside; [|constructor]. unfold ignored.
      destruct (mem_str (idecl_cpp d) (ignore c)) eqn:E; cbn; [constructor|].
      constructor; [exact E | constructor].
    - constructor.
    - constructor.
    - destruct inside; cbn; [constructor; [exact I | constructor] | constructor].
    - destruct inside; [destruct (v_default v); cbn; (constructor; [exact I | constructor]) | constructor].
    - destruct (negb (partial_match (ns ++ [n]) (top c))); [constructor|].
      set (ns' := ns ++ [n]). set (inside' := negb (Nat.ltb (length ns') (length (top c)))).
      assert (Hbody : Forall not_ignored_item
                (o_items ((fix go (l : list item) : out :=
                             match l with [] => out_nil | x :: r => out_app (wrap_item q c doc ns' inside' x) (go r) end) content))).
      { induction content as [|x r IHr]; [constructor|]. inversion IH as [|? ? Px Pr]; subst.
        cbn [out_app o_items]. apply Forall_app. split; [apply Px | apply IHr; exact Pr]. }
      destruct inside'; [|exact Hbody].
      cbn [out_app out_items o_items]. apply Forall_app. split.
      + destruct (Nat.ltb (length (top c)) (length ns')); constructor; [exact I | constructor].
      + apply Forall_app. split; [exact Hbody|].
        clear. induction content as [|x r IHr]; [constructor|]. cbn [flat_map]. apply Forall_app. split; [|exact IHr].
        destruct x; constructor; [exact I | constructor].
  Qed.
End C03.

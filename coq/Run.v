(* Line-oriented entry point of the executable model: run "cmd sexp" = answer line. *)
From Coq Require Import String Ascii List Bool Arith.
From Wrap Require Import Base.Str Base.ListX Syntax.Ast Syntax.Sexp Syntax.Codec Syntax.Print Inst.Model Inst.Proj Pybind.Items Pybind.Gen Pybind.Render.
Import ListNotations.
Open Scope string_scope.

Fixpoint split_cmd (s : string) (acc : string) : string * string :=
  match s with
  | EmptyString => (rev_str acc, EmptyString)
  | String c s' => if is c " "%char then (rev_str acc, s') else split_cmd s' (String c acc)
  end.

Definition bit (s : string) (k : nat) : bool :=
  match String.get k s with Some c => is c "1"%char | None => false end.
Definition d_quirks (s : string) : quirks :=
  {| q_cap_all := bit s 0; q_scoped_substring := bit s 1; q_typedef_stale := bit s 2; q_first_level_only := bit s 3 |}.

Definition show_res {A} (f : A -> sexp) (r : res A) : string :=
  match r with
  | Ok a => "ok " ++ print (f a)
  | Err m => "err " ++ m
  | Unsupported m => "unsupported " ++ m
  end.

Definition run_inst (x : sexp) : string :=
  match x with
  | SList [Atom qs; SList ds] =>
    match sequence (map d_decl ds) with
    | Some m => show_res (e_list e_item) (instantiate (d_quirks qs) m)
    | None => "baddecode"
    end
  | _ => "badshape"
  end.

(* projection of the model's instantiation of a parse tree *)
Definition run_instproj (x : sexp) : string :=
  match x with
  | SList [Atom qs; SList ds] =>
    match sequence (map d_decl ds) with
    | Some m => show_res p_items (instantiate (d_quirks qs) m)
    | None => "baddecode"
    end
  | _ => "badshape"
  end.
(* projection of a given instantiated tree (e.g. the implementation's, dumped) *)
Definition run_proj (x : sexp) : string :=
  match x with
  | SList its =>
    match sequence (map d_item its) with
    | Some l => "ok " ++ print (p_items l)
    | None => "baddecode"
    end
  | _ => "badshape"
  end.

Definition d_pquirks (s : string) : pquirks :=
  {| q_ignored_enums := bit s 0; q_values_insert := bit s 1; q_keywords_table := bit s 2; q_var_default_ns := bit s 3 |}.
Definition d_cfg (x : sexp) : option cfg :=
  match x with
  | SList [t; i; b] =>
    do t' <- d_list d_str t; do i' <- d_list d_str i; do b' <- d_bool b;
    Some {| top := t'; ignore := i'; boost := b' |}
  | _ => None
  end.
(* pybind (qbits cfg template module_name submodules? items) -> generated text *)
Definition run_pybind (x : sexp) : string :=
  match x with
  | SList [Atom qs; cf; Atom tpl; Atom mname; subs; SList its] =>
    match d_cfg cf, d_opt (d_list d_str) subs, sequence (map d_item its) with
    | Some c, Some sm, Some l => "ok " ++ print (Atom (r_file (d_pquirks qs) c None tpl mname sm l))
    | _, _, _ => "baddecode"
    end
  | _ => "badshape"
  end.

Definition run (line : string) : string :=
  let '(cmd, rest) := split_cmd line EmptyString in
  match read rest with
  | None => "badsexp"
  | Some x =>
    if String.eqb cmd "inst" then run_inst x
    else if String.eqb cmd "instproj" then run_instproj x
    else if String.eqb cmd "proj" then run_proj x
    else if String.eqb cmd "pybind" then run_pybind x
    else if String.eqb cmd "echo" then print x
    else "badcmd"
  end.

"""C09 - generated pybind11 code compiles against any conforming C++ library (syntactic part)."""
import re
from props import pybcommon as pc
import extract_pybind as E

TRUSTED = ['harness/extract_pybind.py (slow path and direct checks)',
           'the C++ compiler itself is not modelled: "compiles" is reduced to the four syntactic conditions of the statement']


def balanced(text):
    """quote-aware bracket scan over ( [ { - same automaton as Pybind/Balance.v"""
    stack = []
    mode = 'code'
    esc = False
    for ch in text:
        if mode == 'code':
            if ch == '"':
                mode = 'str'
            elif ch == "'":
                mode = 'chr'
            elif ch in '([{':
                stack.append(ch)
            elif ch in ')]}':
                if not stack or {'(': ')', '[': ']', '{': '}'}[stack.pop()] != ch:
                    return False
        else:
            if esc:
                esc = False
            elif ch == '\\':
                esc = True
            elif (mode == 'str' and ch == '"') or (mode == 'chr' and ch == "'"):
                mode = 'code'
    return not stack and mode == 'code'


def direct(text):
    """property-level checks on one generated translation unit -> list of failures"""
    bad = []
    if not balanced(text):
        bad.append('unbalanced')
    recs = E.records(text)
    declared = {'m_'}
    for r in recs:
        if r[0] == 'sub':
            if r[1] in declared:
                bad.append('redeclared:' + r[1])
            if r[2] not in declared:
                bad.append('undeclared-parent:' + r[2])
            declared.add(r[1])
        elif r[0] == 'class':
            if r[1] not in declared:
                bad.append('undeclared-module-var:' + r[1])
            if r[5]:
                declared.add(r[5])
        elif r[0] in ('enum', 'attr', 'fun'):
            if r[1] not in declared:
                bad.append('undeclared-module-var:' + r[1])
        if r[0] in ('def', 'def_static', 'fun'):
            params = r[3]
            nself = 1 if (params and params[0].split(' ')[-1] == 'self') else 0
            pyargs = r[5]
            if len(params) - nself != len(pyargs):
                bad.append('count-mismatch:' + r[2])
            names = [p.split(' ')[-1] for p in params[nself:]]
            pn = [re.match(r'py::arg\("([^"]*)"\)', a).group(1) if re.match(r'py::arg\("([^"]*)"\)', a) else None
                  for a in pyargs]
            if names != pn:
                bad.append('name-mismatch:' + r[2])
        if r[0] == 'init' and len(r[2]) != len(r[3]):
            bad.append('count-mismatch:init')
    return bad


def view(recs):
    return [tuple(map(str, r)) for r in recs]


def run(rep, tier, seed, replay=None, proof_ok=True):
    rep.coverage['rule'] = ('as C03; view = every record of the translation unit; plus direct checks on the '
                            'implementation output: quote-aware bracket balance, lambda/py::arg count and name '
                            'agreement, module variables declared once and before use')
    q = pc.detect_pquirks()
    rep.coverage['quirks_detected'] = dict(zip(pc.PQUIRKS, q))
    pc.pyb_known(rep, q, 'C09')
    dis = pc.correspond(rep, tier, seed + 2, q, view, 120, 3000, e2e=True)
    pc.report(rep, dis, 'pybind wrap_file vs Pybind/Gen.v+Render.v (all records)')
    # direct checks
    cases, _ = pc.gen_cases(tier, seed + 3, 80, 1500)
    import multiprocessing as mp
    with mp.get_context('fork').Pool(14) as pool:
        results = pool.map(pc._case_job, [(n, t, seed) for n, t in cases], chunksize=2)
    shown = 0
    # the main translation unit of a multi-file module: one forward declaration and one call per additional file, each a
    # complete statement (the splice of the submodule list into the template is a place where a `;` can get lost)
    for j, (name, text, it, outs) in enumerate(results):
        if j % 4 or not outs:
            continue
        subs = [['extra'], ['part_b', 'alpha'], ['z9', 'core', 'mid']][(j // 4) % 3]
        st, out = pc.impl_wrap(text, ([''], [], False), 'mod', subs)
        if st != 'ok':
            continue
        rep.hit(pc.common.sha(text + repr(subs) + 'main'), True)
        rep.bump('main_units_with_submodules')
        bad = direct(out)
        for sname in subs:
            for pat, what in ((r'^\s*void %s\(py::module_ ?&\)(.*)$' % sname, 'forward declaration'),
                              (r'^\s*%s\(m_\)(.*)$' % sname, 'initialiser call')):
                ms = re.findall(pat, out, re.M)
                if len(ms) != 1:
                    bad.append('%s of %s appears %d times' % (what, sname, len(ms)))
                elif ms[0].strip() != ';':
                    bad.append('%s of %s is not a complete statement (followed by %r)' % (what, sname, ms[0]))
        for b in bad:
            if b.startswith('redeclared:') and reopened(it[1]):
                continue
            if shown < 3:
                shown += 1
                rep.violation({'kind': 'counterexample', 'what': 'direct C09 check failed on the main unit of a multi-file module: ' + b,
                               'input': text, 'submodules': subs, 'impl': out[:4000]})
    for name, text, it, outs in results:
        for cfg, (st, out) in outs:
            if st != 'ok':
                continue
            rep.hit(pc.common.sha(text + repr(cfg) + 'direct'), True)
            bad = direct(out)
            for b in bad:
                if b.startswith('redeclared:') and reopened(it[1]):
                    rep.bump('known:reopened-namespace')
                    rep.known('C09-reopened-namespace: a namespace opened twice declares its submodule variable twice '
                              '[witness: namespace a { class A {}; } namespace a { class B {}; }]')
                    continue
                if b.startswith('undeclared-module-var:') and cfg[1] and q[0] == '1':
                    # enums of an ignored class refer to the class's instance variable (C03-ignored-class-enums)
                    rep.bump('known:ignored-class-enums')
                    continue
                if shown < 3:
                    shown += 1
                    rep.violation({'kind': 'counterexample', 'what': 'direct C09 check failed: ' + b,
                                   'input': text, 'cfg': cfg, 'impl': out[:4000]})
    return 0


def reopened(items):
    names = [it[1] for it in items if it[0] == 'ns']
    if len(names) != len(set(names)):
        return True
    return any(reopened(it[2]) for it in items if it[0] == 'ns')

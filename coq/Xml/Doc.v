(* C17: the Doxygen-XML side - ElementTree-like trees, the XPath fragments xml_parser.py uses, member
   selection with its overload memory, docstring formatting.  Definitions only. *)
From Coq Require Import String Ascii List Bool Arith.
From Wrap Require Import Base.Str Base.ListX.
Import ListNotations.
Open Scope string_scope.
Open Scope list_scope.

(* text / tail as ElementTree stores them ("" for None) *)
Inductive xml := Elem (tag : string) (attrs : list (string * string)) (text : string)
                      (children : list xml) (tail : string).

Definition x_tag (e : xml) := match e with Elem t _ _ _ _ => t end.
Definition x_attrs (e : xml) := match e with Elem _ a _ _ _ => a end.
Definition x_text (e : xml) := match e with Elem _ _ t _ _ => t end.
Definition x_children (e : xml) := match e with Elem _ _ _ c _ => c end.
Definition x_tail (e : xml) := match e with Elem _ _ _ _ t => t end.

(* Element.itertext(): own text, then for each child its itertext and its tail (empty pieces skipped) *)
Fixpoint itertext (e : xml) : list string :=
  match e with
  | Elem _ _ text children _ =>
    (if String.eqb text "" then [] else [text])
    ++ (fix go (l : list xml) : list string :=
          match l with
          | [] => []
          | c :: r => itertext c ++ (if String.eqb (x_tail c) "" then [] else [x_tail c]) ++ go r
          end) children
  end.
Definition full_text (e : xml) : string := String.concat "" (itertext e).

(* descendants in document order (not the element itself) *)
Fixpoint descendants (e : xml) : list xml :=
  match e with
  | Elem _ _ _ children _ =>
    (fix go (l : list xml) : list xml :=
       match l with [] => [] | c :: r => c :: descendants c ++ go r end) children
  end.

Definition child_named (tag : string) (e : xml) : option xml :=
  find (fun c => String.eqb (x_tag c) tag) (x_children e).
Definition children_named (tag : string) (e : xml) : list xml :=
  filter (fun c => String.eqb (x_tag c) tag) (x_children e).
(* find(".//tag"): first descendant with that tag *)
Definition desc_named (tag : string) (e : xml) : option xml :=
  find (fun c => String.eqb (x_tag c) tag) (descendants e).
Definition descs_named (tag : string) (e : xml) : list xml :=
  filter (fun c => String.eqb (x_tag c) tag) (descendants e).
(* the predicate [name='v']: a child <name> whose complete text equals v *)
Definition has_name (v : string) (e : xml) : bool :=
  existsb (fun c => andb (String.eqb (x_tag c) "name") (String.eqb (full_text c) v)) (x_children e).

Inductive outcome := Doc (s : string) | Crash (why : string).

(* index.xml: ./*[name=cls] -> refid *)
Definition class_refid (index_root : xml) (cls : string) : option (option string) :=
  match find (has_name cls) (x_children index_root) with
  | None => None
  | Some e => Some (match find (fun kv => String.eqb (fst kv) "refid") (x_attrs e) with
                    | Some kv => Some (snd kv) | None => None end)
  end.

(* compounddef/sectiondef//*[name=method] *)
Definition member_candidates (class_root : xml) (method : string) : list xml :=
  flat_map (fun cd => flat_map (fun sd => filter (has_name method) (descendants sd))
                               (children_named "sectiondef" cd))
           (children_named "compounddef" class_root).

Definition param_name (p : xml) : option string :=
  match child_named "declname" p with
  | Some d => Some (x_text d)
  | None => option_map x_text (child_named "defname" p)
  end.

(* one candidate against the wrapper's argument names:
   None = the implementation crashes; Some None = eliminated; Some (Some ignored) = kept *)
Definition match_member (args : list string) (m : xml) : option (option (list string)) :=
  match child_named "argsstring" m with
  | None => None                                     (* f-string evaluates .find('argsstring').text *)
  | Some _ =>
    let params := children_named "param" m in
    let tot := length params in
    let req := tot - length (filter (fun p => match child_named "defval" p with Some _ => true | None => false end) params) in
    if andb (negb (Nat.eqb (length args) req)) (negb (Nat.eqb (length args) tot)) then Some None
    else
      let names_ok := forallb (fun ap => match param_name (snd ap) with
                                         | Some n => String.eqb (fst ap) n
                                         | None => false
                                         end) (combine args params) in
      if negb names_ok then Some None
      else
        let rest := skipn (length args) params in
        match sequence (map (fun p => option_map x_text (child_named "declname" p)) rest) with
        | Some ign => Some (Some ign)
        | None => None                               (* .find("declname").text on None *)
        end
  end.

(* filter_member_defs: kept members, and the ignored parameters of ALL kept members accumulated *)
Fixpoint filter_members (args : list string) (ms : list xml) : option (list xml * list string) :=
  match ms with
  | [] => Some ([], [])
  | m :: r =>
    match match_member args m, filter_members args r with
    | None, _ => None
    | _, None => None
    | Some None, Some x => Some x
    | Some (Some ign), Some (ks, igs) => Some (m :: ks, ign ++ igs)
    end
  end.

Definition pieces (e : xml) : string := String.concat "" (filter (fun t => negb (String.eqb (strip t) "")) (itertext e)).

(* get_formatted_docstring *)
Definition format_doc (m : xml) (ignored : list string) : outcome :=
  let brief := match desc_named "briefdescription" m with
               | Some b => String.concat "" (map pieces (children_named "para" b))
               | None => ""
               end in
  match desc_named "detaileddescription" m with
  | None => Doc (strip brief)
  | Some d =>
    let paras := String.concat ""
                   (map (fun e => (pieces e ++ " ")%string)
                        (filter (fun e => andb (String.eqb (x_tag e) "para")
                                               (negb (existsb (fun c => String.eqb (x_tag c) "parameterlist") (x_children e))))
                                (x_children d))) in
    let plist :=
        match desc_named "parameterlist" d with
        | None => Some ""
        | Some pl =>
          (fix go (i : nat) (l : list xml) : option string :=
             match l with
             | [] => Some ""
             | item :: r =>
               match desc_named "parametername" item,
                     (match desc_named "parameterdescription" item with
                      | Some pd => child_named "para" pd | None => None end) with
               | Some pn, Some pa =>
                 let name := x_text pn in
                 let desc := x_text pa in
                 let line := if mem_str name ignored then ""
                             else ((if String.eqb name "" then ("[Parameter " ++ nat_dec i ++ "]")%string else strip name)
                                   ++ ": " ++ (if String.eqb desc "" then "No description provided" else strip desc)
                                   ++ String "010"%char "")%string in
                 option_map (fun rest => (line ++ rest)%string) (go (S i) r)
               | _, _ => None
               end
             end) 0 (descs_named "parameteritem" pl)
        end in
    match plist with
    | None => Crash "AttributeError"
    | Some ptxt =>
      match desc_named "simplesect" d with
      | None => Doc (strip (brief ++ String "010"%char "" ++ paras ++ ptxt)%string)
      | Some ss =>
        match find (fun kv => String.eqb (fst kv) "kind") (x_attrs ss) with
        | None => Crash "KeyError"
        | Some kv =>
          if String.eqb (snd kv) "return" then
            match child_named "para" ss with
            | None => Crash "AttributeError"
            | Some pa =>
              Doc (strip (brief ++ String "010"%char "" ++ paras ++ ptxt
                          ++ (if String.eqb (x_text pa) "" then "" else "Returns: " ++ strip (x_text pa)))%string)
            end
          else Doc (strip (brief ++ String "010"%char "" ++ paras ++ ptxt)%string)
        end
      end
    end
  end.

(* the overload memory: key -> number of earlier calls minus one *)
Definition memory := list (string * nat).
Fixpoint mem_get (k : string) (m : memory) : option nat :=
  match m with [] => None | (a, v) :: r => if String.eqb a k then Some v else mem_get k r end.
Fixpoint mem_set (k : string) (v : nat) (m : memory) : memory :=
  match m with
  | [] => [(k, v)]
  | (a, w) :: r => if String.eqb a k then (a, v) :: r else (a, w) :: mem_set k v r
  end.

Definition function_key (cls method : string) (args : list string) : string :=
  (cls ++ "." ++ method ++ "(" ++ join "," args ++ ")")%string.

(* extract_docstring given the two parsed files (None = missing / unreadable file) *)
Definition extract (index_root : option xml) (class_file : string -> option xml)
           (cls method : string) (args : list string) (mem : memory) : outcome * memory :=
  match index_root with
  | None => (Doc "", mem)
  | Some idx =>
    match class_refid idx cls with
    | None => (Doc "", mem)
    | Some None => (Crash "KeyError", mem)
    | Some (Some refid) =>
      match class_file refid with
      | None => (Doc "", mem)
      | Some root =>
        match filter_members args (member_candidates root method) with
        | None => (Crash "AttributeError", mem)
        | Some ([], _) => (Doc "", mem)
        | Some (ks, ign) =>
          let key := function_key cls method args in
          let '(idx', mem') :=
              match ks with
              | _ :: _ :: _ =>
                match mem_get key mem with
                | Some v => (S v, mem_set key (S v) mem)
                | None => (0, mem_set key 0 mem)
                end
              | _ => (0, mem)
              end in
          match nth_error ks idx' with
          | Some m => (format_doc m ign, mem')
          | None => (Crash "IndexError", mem')
          end
        end
      end
    end
  end.

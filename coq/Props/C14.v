(* C14 - generation is a pure, repeatable function of inputs and options.
   What is a theorem here: (a) the generator models are Gallina functions - their output is a function of
   (tree, options, template) by typing; (b) the reuse of a PybindWrapper across files.  Hash seed, locale,
   working directory, process identity and parallel writers are outside any executable model of this
   kind: they are observed by the check (sha256 across environments), not proved. *)
From Coq Require Import String Ascii List Bool Arith.
From Wrap Require Import Base.Str Base.ListX Syntax.Ast Syntax.Print Inst.Model Pybind.Items Pybind.Gen Pybind.Render
     State.Wrapper State.WrapperProofs.
Import ListNotations.
Open Scope string_scope.
Open Scope list_scope.

(* earlier files wrapped by the same wrapper object do not influence the next one, for every history of
   calls that succeed or fail before registering a serializable class (parse and validation errors) *)
Theorem C14_reuse : forall q h k, forallb benign h = true ->
  output_of q (run h) k = output_of q init k.
Proof. exact reuse_is_fresh. Qed.
Print Assumptions C14_reuse.

Theorem C14_state_invariant : forall h, forallb benign h = true -> run h = init.
Proof. exact run_benign_init. Qed.
Print Assumptions C14_state_invariant.

(* Full statement (every history) refuted: a call that dies in the generator after a serializable class
   was registered leaks that class into the next file's BOOST_CLASS_EXPORT list.  The hypothesis
   `benign` of C14_reuse is exactly what the proof forced. *)
Definition C14_full (q : pquirks) : Prop :=
  forall h k, output_of q (run h) k = output_of q init k.
Theorem C14_refuted_leak_after_failure : forall q, ~ C14_full q.
Proof.
  intros q H.
  specialize (H [FailLate ["S"]]
                (Wrap {| top := [""]; ignore := []; boost := true |} "{boost_class_export}" "m" None [])).
  vm_compute in H. discriminate H.
Qed.
Print Assumptions C14_refuted_leak_after_failure.

Example C14_nonvacuous :
  forallb benign [FailEarly; Wrap {| top := [""]; ignore := []; boost := true |} "" "m" None []; FailLate []] = true.
Proof. reflexivity. Qed.

(* C15 (pybind): putting a class on the ignore list = deleting its declaration. *)
From Coq Require Import String Ascii List Bool Arith Lia.
From Wrap Require Import Base.Str Base.StrLemmas Base.ListX Syntax.Ast Syntax.Print Inst.Model Inst.Proj
     Pybind.Items Pybind.Gen Pybind.SpecProofs.
Import ListNotations.
Open Scope string_scope.
Open Scope list_scope.

Definition with_ignore (x : string) (c : cfg) : cfg :=
  {| top := top c; ignore := x :: ignore c; boost := boost c |}.

(* delete every class / forward-declared instantiation whose C++ name is x *)
Fixpoint remove_item (x : string) (i : item) : list item :=
  match i with
  | IClass k => if String.eqb (iclass_cpp k) x then [] else [i]
  | IDecl d => if String.eqb (idecl_cpp d) x then [] else [i]
  | INamespace n content => [INamespace n (flat_map (remove_item x) content)]
  | _ => [i]
  end.

Section Ignore.
  Variable q : pquirks.
  Variable c : cfg.
  Variable doc : option (string -> string -> list string -> string).
  Variable x : string.
  Hypothesis Hfresh : mem_str x (ignore c) = false.

  (* the class named x has no enums of its own, or the ignored-enums quirk is repaired *)
  Fixpoint dom_ignore (i : item) : bool :=
    match i with
    | IClass k => orb (negb (String.eqb (iclass_cpp k) x))
                      (orb (negb (q_ignored_enums q)) (match ic_enums k with [] => true | _ => false end))
    | INamespace _ content => forallb dom_ignore content
    | _ => true
    end.

  Lemma mem_str_cons_ne : forall y l, String.eqb y x = false -> mem_str y (x :: l) = mem_str y l.
  Proof. intros y l H. cbn [mem_str]. rewrite H. reflexivity. Qed.

  Lemma out_app_nil_l : forall o, out_app out_nil o = o.
  Proof. intros [a b s]. reflexivity. Qed.
  Lemma out_app_nil_r : forall o, out_app o out_nil = o.
  Proof. intros [a b s]. unfold out_app, out_nil. cbn. rewrite !app_nil_r. reflexivity. Qed.
  Lemma out_app_assoc : forall a b d, out_app (out_app a b) d = out_app a (out_app b d).
  Proof. intros. unfold out_app. cbn. rewrite !app_assoc. reflexivity. Qed.

  Definition wrap_list (cf : cfg) (ns : list string) (inside : bool) (l : list item) : out :=
    fold_right (fun y acc => out_app (wrap_item q cf doc ns inside y) acc) out_nil l.

  Lemma wrap_list_app : forall cf ns inside l1 l2,
    wrap_list cf ns inside (l1 ++ l2) = out_app (wrap_list cf ns inside l1) (wrap_list cf ns inside l2).
  Proof.
    intros. induction l1 as [|y r IH]; cbn [app wrap_list fold_right].
    - rewrite out_app_nil_l. reflexivity.
    - fold (wrap_list cf ns inside (r ++ l2)). rewrite IH. fold (wrap_list cf ns inside r).
      rewrite out_app_assoc. reflexivity.
  Qed.

  Lemma funs_remove : forall (f : ifunc -> bitem) l,
    flat_map (fun y => match y with IFun g => [f g] | _ => [] end) (flat_map (remove_item x) l)
    = flat_map (fun y => match y with IFun g => [f g] | _ => [] end) l.
  Proof.
    intros f l. induction l as [|y r IH]; [reflexivity|].
    cbn [flat_map]. rewrite flat_map_app, IH. f_equal.
    destruct y; cbn [remove_item flat_map app]; try reflexivity.
    - destruct (String.eqb (iclass_cpp c0) x); reflexivity.
    - destruct (String.eqb (idecl_cpp d) x); reflexivity.
  Qed.

  Theorem ignore_is_remove_item : forall i ns inside, dom_ignore i = true ->
    wrap_item q (with_ignore x c) doc ns inside i = wrap_list c ns inside (remove_item x i).
  Proof.
    induction i as [k|f|d|f|h|e|v|n content IH] using item_ind'; intros ns inside Hd;
      cbn [remove_item wrap_list fold_right]; rewrite ?out_app_nil_r; try reflexivity.
    - (* class *)
      cbn [dom_ignore] in Hd. cbn [wrap_item].
      destruct (String.eqb (iclass_cpp k) x) eqn:E.
      + cbn [wrap_list fold_right].
        destruct inside; [|reflexivity].
        unfold wrap_class, ignored. cbn [with_ignore ignore mem_str]. rewrite E.
        cbn [negb orb] in Hd.
        destruct (q_ignored_enums q); [|reflexivity]. cbn [negb orb] in Hd.
        destruct (ic_enums k); [reflexivity | discriminate].
      + cbn [wrap_list fold_right wrap_item]. rewrite out_app_nil_r.
        destruct inside; [|reflexivity].
        unfold wrap_class, ignored. cbn [with_ignore ignore]. rewrite (mem_str_cons_ne _ _ E). reflexivity.
    - (* forward-declared instantiation *)
      cbn [wrap_item]. destruct (String.eqb (idecl_cpp d) x) eqn:E.
      + cbn [wrap_list fold_right]. destruct inside; [|reflexivity].
        unfold ignored. cbn [with_ignore ignore mem_str]. rewrite E. reflexivity.
      + cbn [wrap_list fold_right wrap_item]. rewrite out_app_nil_r. destruct inside; [|reflexivity].
        unfold ignored. cbn [with_ignore ignore]. rewrite (mem_str_cons_ne _ _ E). reflexivity.
    - (* namespace *)
      cbn [wrap_item]. cbn [with_ignore top].
      destruct (negb (partial_match (ns ++ [n]) (top c))); [reflexivity|].
      set (ns' := ns ++ [n]). set (inside' := negb (Nat.ltb (length ns') (length (top c)))).
      cbn [dom_ignore] in Hd.
      assert (Hbody : (fix go (l : list item) : out :=
                         match l with [] => out_nil | y :: r => out_app (wrap_item q (with_ignore x c) doc ns' inside' y) (go r) end) content
                      = (fix go (l : list item) : out :=
                           match l with [] => out_nil | y :: r => out_app (wrap_item q c doc ns' inside' y) (go r) end)
                          (flat_map (remove_item x) content)).
      { assert (Hgo : forall l, (fix go (l0 : list item) : out :=
                           match l0 with [] => out_nil | y :: r => out_app (wrap_item q c doc ns' inside' y) (go r) end) l
                        = wrap_list c ns' inside' l).
        { induction l as [|y r IHr]; [reflexivity|]. cbn [wrap_list fold_right]. rewrite IHr. reflexivity. }
        rewrite Hgo. clear Hgo.
        induction content as [|y r IHr]; [reflexivity|].
        inversion IH as [|? ? Py Pr]; subst. cbn [forallb] in Hd. apply andb_true_iff in Hd. destruct Hd as [Hy Hr].
        cbn [flat_map]. rewrite wrap_list_app. rewrite (Py ns' inside' Hy). rewrite (IHr Pr Hr). reflexivity. }
      rewrite Hbody. cbn [module_var with_ignore top]. unfold module_var. cbn [with_ignore top].
      rewrite funs_remove. reflexivity.
  Qed.

  Theorem ignore_is_remove : forall content, forallb dom_ignore content = true ->
    wrap_module q (with_ignore x c) doc content = wrap_module q c doc (flat_map (remove_item x) content).
  Proof.
    intros content Hd. unfold wrap_module. cbn [with_ignore top].
    destruct (negb (partial_match [""] (top c))); [reflexivity|].
    set (inside := negb (Nat.ltb (length [""]) (length (top c)))).
    assert (Hbody : fold_right (fun y acc => out_app (wrap_item q (with_ignore x c) doc [""] inside y) acc) out_nil content
                    = wrap_list c [""] inside (flat_map (remove_item x) content)).
    { induction content as [|y r IHr]; [reflexivity|].
      cbn [forallb] in Hd. apply andb_true_iff in Hd. destruct Hd as [Hy Hr].
      cbn [fold_right flat_map]. rewrite wrap_list_app. rewrite (ignore_is_remove_item y [""] inside Hy).
      rewrite (IHr Hr). reflexivity. }
    rewrite Hbody. unfold wrap_list. unfold module_var. cbn [with_ignore top]. rewrite funs_remove. reflexivity.
  Qed.
End Ignore.

From Coq Require Import String Ascii List Bool Arith.
From Wrap Require Import Base.Str Base.ListX Syntax.Ast Syntax.Print Inst.Model Pybind.Items Pybind.Gen Pybind.Render State.Wrapper.
Import ListNotations.
Open Scope string_scope.
Open Scope list_scope.

Lemma next_benign_init : forall st k, st = init -> benign k = true -> next st k = init.
Proof.
  intros st k Hs Hb. subst. destruct k as [c tpl name subs content | | reg]; cbn [next]; try reflexivity.
  destruct reg; [reflexivity | discriminate].
Qed.

(* invariant: after any history of successful calls and of calls that fail before registering a
   class, the wrapper is in its initial state *)
Theorem run_benign_init : forall h, forallb benign h = true -> run h = init.
Proof.
  intros h. unfold run.
  assert (H : forall st, st = init -> forallb benign h = true -> fold_left next h st = init).
  { induction h as [|k r IH]; intros st Hs Hb; [exact Hs|].
    cbn [forallb] in Hb. apply andb_true_iff in Hb. destruct Hb as [Hk Hr].
    cbn [fold_left]. apply IH; [apply next_benign_init; assumption | exact Hr]. }
  apply H. reflexivity.
Qed.

(* hence the output of a call does not depend on such a history: it is the fresh wrapper's output *)
Theorem reuse_is_fresh : forall q h k, forallb benign h = true ->
  output_of q (run h) k = output_of q init k.
Proof. intros q h k H. rewrite (run_benign_init h H). reflexivity. Qed.

"""Canonical S-expression dumps of the implementation's parse tree and instantiated tree.

Fail-closed: an unknown node class or field type raises DumpError (the tie is broken, not
silently approximated).  Field lists are explicit, per class."""
import gtwrap.interface_parser as parser
import gtwrap.template_instantiator as inst
from gtwrap.interface_parser.type import Typename, Type, TemplatedType
from gtwrap.interface_parser.template import Template


class DumpError(Exception):
    pass


def b(x):
    """flags are '' / keyword strings / bools"""
    if isinstance(x, bool):
        return x
    if isinstance(x, str):
        return x != ''
    if x is None:
        return False
    raise DumpError('flag of type %s' % type(x))


def s(x):
    if isinstance(x, str):
        return x
    raise DumpError('expected str, got %s %r' % (type(x), x))


def opt(f, x):
    return [] if (x is None or x == '' or x == []) else [f(x)]


def typename(t):
    if not isinstance(t, Typename):
        raise DumpError('expected Typename, got %s %r' % (type(t), t))
    return ['tn', [s(n) for n in t.namespaces], nm(t.name), [typename(i) for i in t.instantiations]]


def nm(n):
    if isinstance(n, str):
        return n
    if isinstance(n, Typename):
        return ['obj', typename(n)]
    raise DumpError('name of type %s' % type(n))


ALIAS_BROKEN = False


def ptrk(t):
    flags = [s(t.is_shared_ptr), s(t.is_ptr), s(t.is_ref)]
    on = [f for f in flags if f != '']
    if len(on) > 1:
        raise DumpError('more than one pointer marker')
    if on and on[0] not in ('*', '@', '&'):
        raise DumpError('marker %r' % on[0])
    if t.is_shared_ptr not in ('', '*') or t.is_ptr not in ('', '@') or t.is_ref not in ('', '&'):
        raise DumpError('marker in wrong slot')
    return on[0] if on else ''


def ty(t):
    if type(t) is Type:
        if not isinstance(t.is_basic, bool):
            raise DumpError('is_basic')
        return ['ty', typename(t.typename), b(t.is_const), ptrk(t), t.is_basic]
    if type(t) is TemplatedType:
        tn = t.typename
        # the model derives typename.instantiations from the parameters.  When the implementation stops sharing the
        # Typename objects between the two (they are written through one and printed through the other), the tree is
        # dumped as to_cpp() prints it - from template_params - so that the correspondence goes on and shows, on a
        # concrete input, what the generators now emit (an aborted dump would only say that the tie is broken).
        global ALIAS_BROKEN
        if len(tn.instantiations) != len(t.template_params) or \
                any(i is not p.typename for i, p in zip(tn.instantiations, t.template_params)):
            ALIAS_BROKEN = True
        return ['tt', [s(n) for n in tn.namespaces], nm(tn.name),
                [ty(p) for p in t.template_params], b(t.is_const), ptrk(t)]
    raise DumpError('type node %s' % type(t))


def ret(r):
    if type(r) is not parser.ReturnType:
        raise DumpError('return type node %s' % type(r))
    if r.type2 == '' or r.type2 is None:
        return ['r1', ty(r.type1)]
    return ['r2', ty(r.type1), ty(r.type2)]


def default(d):
    if d is None:
        return []
    return [s(d)]


def arg(a):
    if type(a) is not parser.Argument:
        raise DumpError('argument node %s' % type(a))
    return ['arg', ty(a.ctype), s(a.name), default(a.default)]


def args(al):
    if type(al) is not parser.ArgumentList:
        raise DumpError('argument list node %s' % type(al))
    return [arg(a) for a in al.list()]


def template(t):
    if type(t) is not Template:
        raise DumpError('template node %s' % type(t))
    return ['tmpl', [s(n) for n in t.typenames], [[typename(i) for i in l] for l in t.instantiations]]


def tmpl(t):
    if t is None or t == '' or t == []:
        return []
    return [template(t)]


def var(v):
    if type(v) is not parser.Variable:
        raise DumpError('variable node %s' % type(v))
    return ['var', ty(v.ctype), s(v.name), default(v.default)]


def enum(e):
    if type(e) is not parser.Enum:
        raise DumpError('enum node %s' % type(e))
    return ['enum', s(e.name), [s(x.name) for x in e.enumerators]]


def oper(o):
    if type(o) is not parser.Operator:
        raise DumpError('operator node %s' % type(o))
    if o.name != 'operator':
        raise DumpError('operator name')
    return ['op', s(o.operator), ret(o.return_type), args(o.args), b(o.is_const)]


def dunder(d):
    if type(d) is not parser.DunderMethod:
        raise DumpError('dunder node %s' % type(d))
    return ['dunder', s(d.name), args(d.args)]


def method(m):
    if type(m) is not parser.Method:
        raise DumpError('method node %s' % type(m))
    return ['method', tmpl(m.template), s(m.name), ret(m.return_type), args(m.args), b(m.is_const)]


def smethod(m):
    if type(m) is not parser.StaticMethod:
        raise DumpError('static method node %s' % type(m))
    return ['static', tmpl(m.template), s(m.name), ret(m.return_type), args(m.args)]


def ctor(k):
    if type(k) is not parser.Constructor:
        raise DumpError('ctor node %s' % type(k))
    return ['ctor', tmpl(k.template), s(k.name), args(k.args)]


def base(p):
    if p == '' or p is None:
        return []
    if type(p) is TemplatedType:
        return [['bt', ty(p)]]
    if type(p) is Typename:
        return [['bn', typename(p)]]
    raise DumpError('parent class %s' % type(p))


def home_of(obj):
    """namespace path from the parent links (without the leading '')"""
    names = []
    anc = obj.parent
    while anc and anc.name:
        names.insert(0, s(anc.name))
        anc = anc.parent
    return names


def check_parent(obj, ns):
    if obj.parent is not ns:
        raise DumpError('parent link of %r does not point to the enclosing namespace' % (obj, ))


def klass(c, ns):
    if type(c) is not parser.Class:
        raise DumpError('class node %s' % type(c))
    check_parent(c, ns)
    for lst in (c.ctors, c.methods, c.static_methods, c.dunder_methods, c.properties):
        for m in lst:
            if m.parent is not c:
                raise DumpError('member parent link')
    return ['class', tmpl(c.template), b(c.is_virtual), s(c.name), base(c.parent_class),
            [ctor(k) for k in c.ctors], [method(m) for m in c.methods],
            [smethod(m) for m in c.static_methods], [dunder(d) for d in c.dunder_methods],
            [var(v) for v in c.properties], [oper(o) for o in c.operators],
            [enum(e) for e in c.enums]]


def func(f, ns):
    if type(f) is not parser.GlobalFunction:
        raise DumpError('function node %s' % type(f))
    check_parent(f, ns)
    return ['fun', tmpl(f.template), s(f.name), ret(f.return_type), args(f.args)]


def fwd(f, ns):
    if type(f) is not parser.ForwardDeclaration:
        raise DumpError('fwd node %s' % type(f))
    check_parent(f, ns)
    if f.name != f.typename.name:
        raise DumpError('fwd name')
    return ['fwd', b(f.is_virtual), typename(f.typename), opt(typename, f.parent_type)]


def namespace_content(ns):
    out = []
    for e in ns.content:
        t = type(e)
        if t is parser.Class:
            out.append(klass(e, ns))
        elif t is parser.GlobalFunction:
            out.append(func(e, ns))
        elif t is parser.TypedefTemplateInstantiation:
            check_parent(e, ns)
            out.append(['typedef', typename(e.typename), s(e.new_name)])
        elif t is parser.ForwardDeclaration:
            out.append(fwd(e, ns))
        elif t is parser.Include:
            check_parent(e, ns)
            out.append(['include', s(e.header)])
        elif t is parser.Enum:
            check_parent(e, ns)
            out.append(enum(e))
        elif t is parser.Variable:
            check_parent(e, ns)
            out.append(var(e))
        elif t is parser.Namespace:
            check_parent(e, ns)
            out.append(['ns', s(e.name), namespace_content(e)])
        else:
            raise DumpError('namespace element %s' % t)
    return out


def module(m):
    """parse tree of Module.parseString -> list of decl S-expressions"""
    if type(m) is not parser.Namespace or m.name != '' or m.parent != '':
        raise DumpError('module root')
    return namespace_content(m)


# ---------------- instantiated tree ----------------
def insts(l):
    return [typename(i) for i in l]


def imethod(m):
    if type(m) is not inst.InstantiatedMethod:
        raise DumpError('imethod node %s' % type(m))
    return ['imethod', s(m.original.name), b(bool(m.original.template)), insts(m.instantiations),
            s(m.name), ret(m.return_type), args(m.args), b(m.is_const)]


def ismethod(m):
    if type(m) is not inst.InstantiatedStaticMethod:
        raise DumpError('istatic node %s' % type(m))
    return ['istatic', s(m.original.name), b(bool(m.original.template)), insts(m.instantiations),
            s(m.name), ret(m.return_type), args(m.args)]


def ictor(k):
    if type(k) is not inst.InstantiatedConstructor:
        raise DumpError('ictor node %s' % type(k))
    return ['ictor', s(k.original.name), b(bool(k.original.template)), insts(k.instantiations),
            s(k.name), args(k.args)]


def iclass(c):
    if type(c) is not inst.InstantiatedClass:
        raise DumpError('iclass node %s' % type(c))
    if c.template is not None:
        raise DumpError('iclass.template')
    for lst in (c.ctors, c.methods, c.static_methods):
        for m in lst:
            if m.parent is not c:
                raise DumpError('instantiated member parent link')
    return ['iclass', home_of(c), s(c.original.name), b(bool(c.original.template)),
            insts(c.instantiations), s(c.name), b(c.is_virtual), opt(typename, c.parent_class),
            [ictor(k) for k in c.ctors], [imethod(m) for m in c.methods],
            [ismethod(m) for m in c.static_methods], [dunder(d) for d in c.dunder_methods],
            [var(v) for v in c.properties], [oper(o) for o in c.operators],
            [enum(e) for e in c.enums]]


def ifunc(f):
    if type(f) is not inst.InstantiatedGlobalFunction:
        raise DumpError('ifun node %s' % type(f))
    return ['ifun', home_of(f), s(f.original.name), b(bool(f.original.template)),
            insts(f.instantiations), s(f.name), ret(f.return_type), args(f.args)]


def idecl(d):
    if type(d) is not inst.InstantiatedDeclaration:
        raise DumpError('idecl node %s' % type(d))
    return ['idecl', home_of(d), s(d.original.name), insts(d.instantiations), s(d.name)]


def items(ns):
    out = []
    for e in ns.content:
        t = type(e)
        if t is inst.InstantiatedClass:
            out.append(iclass(e))
        elif t is inst.InstantiatedGlobalFunction:
            out.append(ifunc(e))
        elif t is inst.InstantiatedDeclaration:
            out.append(idecl(e))
        elif t is parser.ForwardDeclaration:
            out.append(fwd(e, ns))
        elif t is parser.Include:
            out.append(['include', s(e.header)])
        elif t is parser.Enum:
            check_parent(e, ns)
            out.append(enum(e))
        elif t is parser.Variable:
            out.append(var(e))
        elif t is parser.Namespace:
            check_parent(e, ns)
            out.append(['ns', s(e.name), items(e)])
        else:
            raise DumpError('instantiated namespace element %s' % t)
    return out

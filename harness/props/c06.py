"""C06 - MATLAB overload guards, default expansion and C++ marshalling line up."""
import multiprocessing as mp
import random
import re

import common
import sexp
from props import mlcommon as ml

TRUSTED = ['regex extraction of routine texts and guard / call lines from the generated toolbox']


def routine_texts(cpp):
    """name -> full text of the routine, from `void name(` up to the next routine / mexFunction"""
    starts = [(m.start(), m.group(1)) for m in
              re.finditer(r'^void (\w+)\(int nargout, mxArray \*out\[\], int nargin, const mxArray \*in\[\]\)', cpp, re.M)]
    out = {}
    for k, (pos, name) in enumerate(starts):
        end = starts[k + 1][0] if k + 1 < len(starts) else len(cpp)
        txt = cpp[pos:end]
        if name == 'mexFunction':
            continue
        if k + 1 < len(starts) and starts[k + 1][1] == 'mexFunction':
            # the blank line before mexFunction belongs to the mex_function template
            if txt.endswith('\n\n'):
                txt = txt[:-1]
        out[name] = txt
    return out


def m_lines(tree, module):
    """id -> (previous non-empty line stripped, call line stripped) for every call site"""
    out = {}
    call = re.compile(re.escape(module) + r'_wrapper\((\d+)')
    for path, text in tree.items():
        if not path.endswith('.m'):
            continue
        lines = text.split('\n')
        for i, line in enumerate(lines):
            for m in call.finditer(line):
                prev = lines[i - 1].strip() if i else ''
                out[int(m.group(1))] = (prev, line.strip())
    return out


def direct_check(tree, module, table):
    """arity agreement etc. checked on the toolbox itself: for every id whose MATLAB guard tests a count,
    the routine's checkArguments expects that count and unwraps exactly that many arguments in order"""
    bad = []
    cpp = ml.wrapper_cpp(tree, module)
    rt = routine_texts(cpp)
    ml_ = m_lines(tree, module)
    cases = dict(ml.cpp_cases(cpp))
    for i, (prev, line) in ml_.items():
        gm = re.search(r'(?:nargin|length\(varargin\))\s*==\s*(\d+)', prev)
        if not gm or 'uint64(5139824614673773682)' in prev:
            continue
        n = int(gm.group(1))
        body = rt.get(cases.get(i, ''), '')
        cm = re.search(r'checkArguments\("[^"]*",nargout,nargin(-1)?,(\d+)\)', body)
        if cm:
            if int(cm.group(2)) != n:
                bad.append('id %d: guard count %d, checkArguments %s' % (i, n, cm.group(2)))
            off = 1 if cm.group(1) else 0
            idx = [int(x) for x in re.findall(r'= \*?unwrap\w*<[^;]*>\(in\[(\d+)\]', body) if True]
            idx = [x for x in idx if not (off and x == 0)]
            if idx != list(range(off, off + n)):
                bad.append('id %d: unwraps in[%s], expected %d arguments from in[%d]' % (i, idx, n, off))
        isa = re.findall(r"isa\(varargin\{(\d+)\}", prev)
        if [int(x) for x in isa] != sorted(int(x) for x in isa) or any(int(x) > n for x in isa):
            bad.append('id %d: guard tests positions %s for %d arguments' % (i, isa, n))
    return bad


def _job(job):
    name, text, seed = job
    r = random.Random('c06/%s/%s' % (seed, name))
    boost = r.random() < 0.5
    if name.startswith('replay'):
        boost = name.endswith('+boost')
    it = ml.impl_items(text)
    res = ml.impl_matlab([text], 'mod', [], boost)
    return name, text, boost, it, res


KNOWN_CRASHES = [
    ('C06-ctor-templated-arg-crash', "unhashable type: 'Typename'"),
    ('C06-templated-method-pair-crash', "'str' object has no attribute 'return_type'"),
]


def run(rep, tier, seed, replay=None, proof_ok=True):
    rep.coverage['rule'] = ('fixtures + corpus + generated modules (constructors, methods, statics, functions; parameter '
                            'lists up to 4 (quick) with suffix default masks, all passing modes, all return shapes) x '
                            'serialization; compared per gateway id: the complete C++ routine text and the MATLAB guard '
                            'and call lines vs Matlab/Arity.v; plus count/position agreement checked directly; '
                            'non-trivial = toolbox with >= 3 ids')
    import json, os
    fs = json.load(open(os.path.join(common.VERIF, 'known_findings.json')))['findings']
    for f in fs:
        if f['property'] == 'C06' and f['status'] == 'open':
            r = ml.impl_matlab([f['witness']])
            if r[0] != 'ok':
                rep.known('%s: %s [witness: %s]' % (f['id'], f['what_fails'], f['witness']))
    cases, stats = ml.gen_cases(tier, seed, 150, 4000, tag='c06')
    if replay:
        import json as _json
        _t = _json.load(open(replay))['input']
        cases, stats = [('replay', _t), ('replay+boost', _t)], {}
    rep.coverage['input_distribution'] = stats
    with mp.get_context('fork').Pool(14) as pool:
        results = pool.map(_job, [(n, t, seed) for n, t in cases], chunksize=2)
    model = common.Model()
    shown = 0
    # defaults before non-defaults must be rejected (AssertionError), for every callable kind
    gaps = ['class A { void f(int a = 1, int b); };', 'class A { A(int a = 1, int b); };',
            'class A { static void f(int a = 1, int b, int c = 3); };', 'void f(double x = 1.0, int y);',
            'namespace n { class A { void f(int a, int b = 2, int c); }; }']
    for gtext in gaps:
        r = ml.impl_matlab([gtext])
        rep.hit(common.sha(gtext), True)
        if r[0] == 'ok':
            shown += 1
            rep.violation({'kind': 'counterexample', 'what': 'a default before a non-default argument is accepted',
                           'input': gtext, 'files': sorted(r[1])})
        else:
            rep.bump('gap_rejected_' + r[0])
    try:
        for name, text, boost, it, res in results:
            if it[0] != 'ok':
                rep.bump('impl_inst_' + it[0])
                continue
            if res[0] != 'ok':
                rep.bump('impl_' + res[0])
                if res[0].startswith('Crash'):
                    known = [k for k, msg in KNOWN_CRASHES if msg in res[1]]
                    if known:
                        rep.bump('known:' + known[0])
                    elif shown < 3:
                        shown += 1
                        rep.violation({'kind': 'counterexample', 'what': 'MATLAB wrapper crashes (%s: %s)' % (res[0], res[1]),
                                       'input': text, 'boost': boost})
                continue
            tree = res[1]
            ans = model.ask('mltexts', [['mod', [], boost], it[1]])
            if not ans.startswith('ok '):
                rep.bump('model_' + ans.split(' ')[0])
                continue
            table = sexp.loads(ans[3:])
            rep.hit(common.sha(text + str(boost)), len(table) >= 3)
            bad = direct_check(tree, 'mod', table)
            if bad and shown < 3:
                shown += 1
                rep.violation({'kind': 'counterexample', 'what': 'guards and routines disagree in the generated toolbox',
                               'input': text, 'boost': boost, 'failures': bad[:10]})
                continue
            cpp = ml.wrapper_cpp(tree, 'mod')
            rt = routine_texts(cpp)
            lines = m_lines(tree, 'mod')
            diffs = []
            layout_only = 0
            norm = lambda x: re.sub(r'\s+', ' ', x or '').strip()
            for i, rname, rtext, guard, call in table:
                if '<TypeError>' in rtext or '<IndexError>' in rtext:
                    continue
                got = rt.get(rname)
                if got != rtext:
                    if norm(got) == norm(rtext):
                        layout_only += 1
                    else:
                        diffs.append(('routine', rname, got, rtext))
                if call:
                    g = lines.get(int(i))
                    if g is None or norm(g[1]) != norm(call) or not norm(g[0]).endswith(norm(guard)):
                        diffs.append(('m-site', i, g, (guard, call)))
            if layout_only:
                rep.bump('layout_only_differences', layout_only)
            if diffs:
                rep.bump('model_differs')
                if shown < 3:
                    shown += 1
                    d = diffs[0]
                    # every token of a routine / guard / call line is within C06's statement and the model has no
                    # recorded deviation here: a token-level difference on this input is the failing input
                    rep.violation({'kind': 'counterexample',
                                   'what': 'guard / unwrap / call / return of an overload differ from the specified ones '
                                           '(Matlab/Arity.v)',
                                   'input': text, 'boost': boost, 'which': d[:2],
                                   'impl': d[2], 'expected': d[3], 'n_diffs': len(diffs)})
            else:
                rep.bump('agree')
                rep.sample({'input': text[:300], 'ids': len(table)}, cap=3)
    finally:
        model.close()
        import shutil
        shutil.rmtree(ml.scratch_root(), ignore_errors=True)
    return 0

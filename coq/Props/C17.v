(* C17 - embedded docstrings are the right text, correctly escaped, and change nothing else. *)
From Coq Require Import String Ascii List Bool NArith Arith.
From Wrap Require Import Base.Str Base.ListX Syntax.Ast Inst.Model Pybind.Items Pybind.Gen Pybind.DocProofs
     Xml.Escape Xml.EscapeProofs Xml.Doc Xml.DocProofs.
Import ListNotations.
Open Scope string_scope.

(* (1) escaping.  Full statement: a compiler decodes the literal to exactly the UTF-8 of the text,
   whatever characters it contains. *)
Definition C17_escape_full : Prop := forall s, cpp_decode (literal s) = Some (utf8s s).

(* refuted: U+0085 followed by 'a' becomes \x85a, which a C++ compiler reads as ONE out-of-range
   escape; U+00A0 becomes the single byte A0 instead of its UTF-8 encoding *)
Theorem C17_refuted_escape : ~ C17_escape_full.
Proof. intros H. specialize (H [133; 97]%N). vm_compute in H. discriminate H. Qed.
Print Assumptions C17_refuted_escape.

Example C17_refuted_nbsp : cpp_decode (literal [160]%N) = Some [160%N] /\ utf8s [160%N] = [194; 160]%N.
Proof. vm_compute. split; reflexivity. Qed.

(* holds for every text whose characters are printable (per the running interpreter's table) or
   tab / newline / carriage return - quotes and backslashes of any number and mix included *)
Theorem C17_escape_partial : forall s, forallb plain s = true -> cpp_decode (literal s) = Some (utf8s s).
Proof. exact escape_roundtrip. Qed.
Print Assumptions C17_escape_partial.

Example C17_escape_nonvacuous :
  forallb plain [34; 39; 92; 10; 9; 233; 8364; 128512; 92; 34; 110]%N = true.
Proof. vm_compute. reflexivity. Qed.

(* (2) selection: overloads told apart by their parameter names; among indistinguishable ones the k-th
   request returns the k-th member definition, in document order *)
Theorem C17_select_kth : forall index_root class_file cls method args idx refid root ks ign,
  index_root = Some idx -> class_refid idx cls = Some (Some refid) -> class_file refid = Some root ->
  filter_members args (member_candidates root method) = Some (ks, ign) -> (2 <= length ks)%nat ->
  forall n m, mem_get (function_key cls method args) m = None ->
  fst (repeat_calls index_root class_file cls method args n m)
  = map (fun j => match nth_error ks j with Some x => format_doc x ign | None => Crash "IndexError" end) (seq 0%nat n).
Proof. exact calls_from_fresh. Qed.
Print Assumptions C17_select_kth.

Theorem C17_select_matches : forall args ms ks ign,
  filter_members args ms = Some (ks, ign) ->
  forall x, In x ks -> In x ms /\ exists i, match_member args x = Some (Some i).
Proof. exact filter_members_sub. Qed.
Print Assumptions C17_select_matches.

(* (3) apart from the added literals the generated records, includes and serialization exports are
   those generated without XML *)
Theorem C17_only_literals : forall q c doc content,
  strip_out (wrap_module q c doc content) = wrap_module q c None content.
Proof. exact wrap_module_strip. Qed.
Print Assumptions C17_only_literals.

(* (4) totality.  Full statement: missing documentation, missing classes or unreadable XML yield an empty
   docstring, never an error.  Refuted: an element named like the method but without <argsstring>
   (e.g. an enumvalue) makes extraction raise. *)
Definition xe (tag : string) (text : string) (children : list xml) : xml := Elem tag [] text children "".
Example C17_refuted_total :
  let root := xe "doxygen" "" [xe "compounddef" "" [xe "sectiondef" "" [xe "enumvalue" "" [xe "name" "f" []]]]] in
  let idx := Elem "doxygenindex" [] "" [Elem "compound" [("refid"%string, "c"%string)] "" [xe "name" "C" []] ""] "" in
  fst (extract (Some idx) (fun _ => Some root) "C" "f" [] []) = Crash "AttributeError".
Proof. vm_compute. reflexivity. Qed.

(* what IS total: absent index, absent class, absent class file, no member of that name *)
Theorem C17_missing_is_empty : forall class_file cls method args mem,
  fst (extract None class_file cls method args mem) = Doc "".
Proof. reflexivity. Qed.
Print Assumptions C17_missing_is_empty.

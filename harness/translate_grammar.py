"""Translator, grammar part: walks the LIVE pyparsing expression tree of gtwrap.interface_parser.Module.rule and
emits it as a Gallina term (coq/gen/Grammar.v : list (string * gexpr), one entry per rule that carries a parse
action).  Fail-closed: an element class, attribute value or sharing pattern this walker does not know aborts the
translation (TieBroken); nothing is approximated.  The sub-trees modelled by hand-written scanners (DEFAULT_ARG,
the C/C++ comment expression) are emitted as fingerprints of their complete structure."""
import hashlib
import inspect

from translate import TieBroken, cstr


def _owners():
    import pyparsing as pp
    import gtwrap.interface_parser as ip
    mods = [getattr(ip, n) for n in ('classes', 'function', 'type', 'template', 'variable', 'enum', 'declaration',
                                     'namespace', 'module')]
    owners = {}

    def scan(cls, prefix=''):
        for name, obj in vars(cls).items():
            if inspect.isclass(obj) and obj.__module__.startswith('gtwrap.interface_parser'):
                nm = prefix + obj.__name__
                r = vars(obj).get('rule')
                if isinstance(r, pp.ParserElement):
                    el = r
                    while isinstance(el, pp.Forward) and not el.parseAction and el.expr is not None:
                        el = el.expr
                    for a in list(el.parseAction) + list(r.parseAction):
                        if id(a) in owners and owners[id(a)] != nm:
                            raise TieBroken('parse action shared by %s and %s' % (owners[id(a)], nm))
                        owners[id(a)] = nm
                scan(obj, nm + '.')
    for m in mods:
        scan(m)
    top = ip.Module.rule
    if type(top).__name__ != 'And' or len(top.exprs) != 2 or type(top.exprs[1]).__name__ != 'StringEnd':
        raise TieBroken('Module.rule is not <content> + stringEnd')
    for a in top.exprs[0].parseAction:
        owners[id(a)] = 'ModuleContent'
    return owners


def structure(e, seen=None, depth=0):
    """complete structural dump of a sub-tree (classes, attributes, flags), for fingerprints"""
    seen = {} if seen is None else seen
    if id(e) in seen:
        return '<%d>' % seen[id(e)]
    seen[id(e)] = len(seen)
    attrs = []
    for a in ('pattern', 'match', 'initCharsOrig', 'bodyCharsOrig', 'notChars', 'minLen', 'maxLen', 'adjacent', 'quoteChar',
              'endQuoteChar', 'escChar', 'escQuote', 'multiline', 'unquoteResults', 'caseless', 'identChars'):
        if hasattr(e, a):
            v = getattr(e, a)
            if isinstance(v, (set, frozenset)):
                v = ''.join(sorted(v))
            attrs.append('%s=%r' % (a, v))
    head = '%s[%s|ign=%d ws=%s wc=%r pre=%s name=%s act=%d]' % (
        type(e).__name__, ' '.join(attrs), len(e.ignoreExprs), e.skipWhitespace, ''.join(sorted(e.whiteChars)), e.callPreparse,
        e.resultsName, len(e.parseAction))
    subs = getattr(e, 'exprs', None)
    if subs is None:
        x = getattr(e, 'expr', None)
        subs = [x] if x is not None else []
    return head + '(' + ','.join(structure(s, seen, depth + 1) for s in subs) + ')'


def grammar():
    import pyparsing as pp
    import gtwrap.interface_parser as ip
    from gtwrap.interface_parser import tokens
    owners = _owners()
    default_actions = {id(a) for a in tokens.DEFAULT_ARG.parseAction}
    if not default_actions:
        raise TieBroken('DEFAULT_ARG carries no parse action (originalTextFor changed)')
    WS = ''.join(sorted(' \t\n\r'))
    rules = {}
    order = []
    in_progress = set()

    comment_structure = structure(pp.cpp_style_comment)
    ignore_ok = {}

    def common(e):
        if type(e).__name__ == 'CharsNotIn':
            if e.skipWhitespace:
                raise TieBroken('CharsNotIn skipping white space')
        elif ''.join(sorted(e.whiteChars)) != WS or not e.skipWhitespace:
            raise TieBroken('white-space handling of %r changed' % e)
        ok = len(e.ignoreExprs) == 1 and type(e.ignoreExprs[0]).__name__ == 'Suppress'
        if ok:
            ig = e.ignoreExprs[0].expr
            if id(ig) not in ignore_ok:
                ignore_ok[id(ig)] = (ig, structure(ig) == comment_structure)     # ignore() stores a copy
            ok = ignore_ok[id(ig)][1]
        if not ok:
            raise TieBroken('ignore expressions of %r are not exactly [cppStyleComment]' % e)

    def named(e, t):
        if e.resultsName:
            if getattr(e, 'modalResults', True) is False:
                raise TieBroken('listAllMatches results name on %r' % e)
            return 'GName %s (%s)' % (cstr(e.resultsName), t)
        return t

    def body(e):
        """translation of e's own structure, without its results name and parse action"""
        k = type(e).__name__
        common(e)
        if k in ('And', 'Or', 'MatchFirst'):
            if k == 'And' and any(type(x).__name__ == '_ErrorStop' for x in e.exprs):
                raise TieBroken('And with error stop')
            con = {'And': 'GAnd', 'Or': 'GOr', 'MatchFirst': 'GFirst'}[k]
            return '%s [%s]' % (con, '; '.join(tr(x) for x in e.exprs))
        if k == 'Opt':
            if e.defaultValue is not pp.Opt._Opt__optionalNotMatched if hasattr(pp.Opt, '_Opt__optionalNotMatched') else False:
                raise TieBroken('Optional with a default value')
            return 'GOpt (%s)' % tr(e.expr)
        if k == 'ZeroOrMore':
            if e.not_ender is not None:
                raise TieBroken('ZeroOrMore with stopOn')
            return 'GStar (%s)' % tr(e.expr)
        if k == 'Suppress':
            return 'GSup (%s)' % tr(e.expr)
        if k in ('DelimitedList', 'Forward'):
            if e.expr is None:
                raise TieBroken('empty Forward')
            return tr(e.expr)
        if k in ('Literal', '_SingleCharLiteral'):
            return 'GTerm (TLit %s)' % cstr(e.match)
        if k == 'Keyword':
            if e.caseless or ''.join(sorted(e.identChars)) != ''.join(sorted(pp.alphanums + '_$')):
                raise TieBroken('Keyword settings of %r' % e)
            return 'GTerm (TKw %s)' % cstr(e.match)
        if k == 'Word':
            if e.minLen != 1 or e.maxLen not in (0, 2 ** 63 - 1) or e.asKeyword:
                raise TieBroken('Word settings of %r' % e)
            return 'GTerm (TWord %s %s)' % (cstr(''.join(sorted(e.initChars))), cstr(''.join(sorted(e.bodyChars))))
        if k == 'CharsNotIn':
            if e.minLen != 1 or e.maxLen not in (0, 2 ** 63 - 1):
                raise TieBroken('CharsNotIn settings of %r' % e)
            return 'GTerm (TNotIn %s)' % cstr(e.notChars)
        if k == 'StringEnd':
            return 'GTerm TEnd'
        raise TieBroken('unknown element class %s (%r)' % (k, e))

    def tr(e):
        acts = [id(a) for a in e.parseAction]
        if acts and all(a in default_actions for a in acts):
            return named(e, 'GTerm TDefault')
        if acts:
            if len(acts) != 1 or acts[0] not in owners:
                raise TieBroken('parse action of %r is not one of the known node constructors' % e)
            name = owners[acts[0]]
            b = None
            if name not in in_progress:
                in_progress.add(name)
                b = body(e)
                in_progress.discard(name)
                if name in rules and rules[name] != b:
                    raise TieBroken('two elements with the parse action of %s differ in structure' % name)
                if name not in rules:
                    rules[name] = b
                    order.append(name)
            return named(e, 'GRef %s' % cstr(name))
        if type(e).__name__ == 'Forward' and e.expr is not None and e.expr.parseAction:
            return named(e, tr(e.expr))
        return named(e, body(e))

    top = ip.Module.rule
    common(top)
    rules['Module'] = 'GAnd [%s]' % '; '.join(tr(x) for x in top.exprs)
    order.append('Module')
    out = ['(* GENERATED by harness/translate_grammar.py from the live pyparsing objects of /repo - do not edit *)',
           'From Coq Require Import String List.', 'From Wrap Require Import Parse.Peg.', 'Import ListNotations.',
           'Open Scope string_scope.', '']
    out.append('Definition grammar : grammar := [')
    out.append(';\n'.join('  (%s, %s)' % (cstr(n), rules[n]) for n in order))
    out.append('].')
    fp = hashlib.sha256(structure(tokens.DEFAULT_ARG).encode()).hexdigest()
    out.append('Definition default_arg_fingerprint : string := %s.' % cstr(fp))
    cfp = hashlib.sha256(structure(pp.cpp_style_comment).encode()).hexdigest()
    out.append('Definition comment_fingerprint : string := %s.' % cstr(cfp))
    out.append('Definition pyparsing_version : string := %s.' % cstr(pp.__version__))
    import sys
    out.append('Definition tabs_expanded : bool := %s.' % ('true' if not top.keepTabs else 'false'))
    return '\n'.join(out) + '\n'


if __name__ == '__main__':
    print(grammar())

(* C08: the Cartesian product in itertools order, naming, scope structure. *)
From Coq Require Import String Ascii List Bool Arith Lia FinFun.
From Wrap Require Import Base.Str Base.StrLemmas Base.ListX Syntax.Ast Syntax.Print Inst.Model.
Import ListNotations.
Open Scope list_scope.

Lemma NoDup_app_intro : forall (A : Type) (a b : list A),
  NoDup a -> NoDup b -> (forall x, In x a -> In x b -> False) -> NoDup (a ++ b).
Proof.
  intros A a b Ha Hb Hd. induction Ha as [|x a Hx Ha IH]; [exact Hb|].
  cbn [app]. constructor.
  - intros Hin. apply in_app_or in Hin. destruct Hin as [Hin|Hin]; [contradiction|].
    apply (Hd x); [left; reflexivity | exact Hin].
  - apply IH. intros y Hy1 Hy2. apply (Hd y); [right; exact Hy1 | exact Hy2].
Qed.

Section Cartesian.
  Context {A : Type}.

  Fixpoint size (ls : list (list A)) : nat :=
    match ls with [] => 1 | l :: rest => length l * size rest end.

  (* the i-th tuple of the lexicographic product, first list slowest (mixed radix digits of i) *)
  Fixpoint tuple_at (d : A) (ls : list (list A)) (i : nat) : list A :=
    match ls with
    | [] => []
    | l :: rest => nth (i / size rest) l d :: tuple_at d rest (i mod size rest)
    end.

  Lemma cartesian_length : forall ls, length (cartesian ls) = size ls.
  Proof.
    induction ls as [|l rest IH]; [reflexivity|].
    cbn [cartesian size]. induction l as [|x l IHl]; [reflexivity|].
    cbn [flat_map length]. rewrite app_length, map_length, IH, IHl. lia.
  Qed.

  Lemma nth_blocks : forall (B : Type) (f : A -> list B) (m : nat) (d : A) (db : B) (l : list A) (i : nat),
    0 < m -> (forall x, length (f x) = m) -> i < length l * m ->
    nth i (flat_map f l) db = nth (i mod m) (f (nth (i / m) l d)) db.
  Proof.
    intros B f m d db l. induction l as [|x l IH]; intros i Hm Hf Hi.
    - cbn in Hi. lia.
    - cbn [flat_map]. destruct (Nat.lt_ge_cases i m) as [Hlt|Hge].
      + rewrite app_nth1 by (rewrite Hf; exact Hlt).
        rewrite Nat.div_small by exact Hlt. rewrite Nat.mod_small by exact Hlt. reflexivity.
      + rewrite app_nth2 by (rewrite Hf; exact Hge). rewrite Hf.
        assert (Hi' : i - m < length l * m) by (cbn [length] in Hi; lia).
        rewrite (IH (i - m) Hm Hf Hi').
        assert (E : i = (i - m) + 1 * m) by lia.
        assert (Hd : i / m = S ((i - m) / m)).
        { rewrite E at 1. rewrite Nat.div_add by lia. lia. }
        assert (Hmod : i mod m = (i - m) mod m).
        { rewrite E at 1. rewrite Nat.mod_add by lia. reflexivity. }
        rewrite Hd, Hmod. reflexivity.
  Qed.

  Theorem cartesian_nth : forall (d : A) ls i, i < size ls ->
    nth i (cartesian ls) [] = tuple_at d ls i.
  Proof.
    intros d ls. induction ls as [|l rest IH]; intros i Hi.
    - cbn in Hi. assert (i = 0) by lia. subst. reflexivity.
    - cbn [cartesian tuple_at size] in *.
      assert (Hr : 0 < size rest) by (destruct (size rest); [lia|lia]).
      rewrite (nth_blocks _ (fun x => map (fun t => x :: t) (cartesian rest)) (size rest) d [] l i Hr).
      + assert (Hm : i mod size rest < size rest) by (apply Nat.mod_upper_bound; lia).
        rewrite <- (IH _ Hm).
        assert (Hm' : i mod size rest < length (cartesian rest)) by (rewrite cartesian_length; exact Hm).
        rewrite (nth_indep _ [] (nth (i / size rest) l d :: []) ).
        2:{ rewrite map_length. exact Hm'. }
        rewrite (map_nth (fun t => nth (i / size rest) l d :: t) (cartesian rest) []).
        reflexivity.
      + intros x. rewrite map_length. apply cartesian_length.
      + exact Hi.
  Qed.

  Theorem cartesian_In : forall ls t, In t (cartesian ls) <-> Forall2 (fun (x : A) (l : list A) => In x l) t ls.
  Proof.
    induction ls as [|l rest IH]; intros t; cbn [cartesian].
    - split.
      + intros [H|[]]. subst. constructor.
      + intros H. inversion H. left. reflexivity.
    - rewrite in_flat_map. split.
      + intros [x [Hx Ht]]. apply in_map_iff in Ht. destruct Ht as [t' [E Ht']]. subst.
        constructor; [exact Hx | apply IH; exact Ht'].
      + intros H. inversion H as [|x l' t' rest' Hx Hr]; subst.
        exists x. split; [exact Hx|]. apply in_map_iff. exists t'. split; [reflexivity | apply IH; exact Hr].
  Qed.

  (* a parameter without instantiation list: nothing is generated *)
  Theorem cartesian_none : forall ls : list (list A), In [] ls -> cartesian ls = [].
  Proof.
    induction ls as [|l rest IH]; intros H; [destruct H|].
    destruct H as [H|H].
    - subst. reflexivity.
    - cbn [cartesian]. rewrite (IH H). induction l; [reflexivity | cbn; assumption].
  Qed.

  Theorem cartesian_NoDup : forall ls, Forall (@NoDup A) ls -> NoDup (cartesian ls).
  Proof.
    induction ls as [|l rest IH]; intros H.
    - cbn. constructor; [intros []|constructor].
    - inversion H as [|? ? Hl Hrest]; subst. specialize (IH Hrest).
      cbn [cartesian]. induction l as [|x l IHl]; [constructor|].
      cbn [flat_map]. inversion Hl as [|? ? Hnx Hl']; subst.
      apply NoDup_app_intro.
      + apply FinFun.Injective_map_NoDup; [|exact IH]. intros a b E. inversion E. reflexivity.
      + apply IHl; [constructor; assumption | exact Hl'].
      + intros t Ht1 Ht2. apply in_map_iff in Ht1. destruct Ht1 as [t1 [E1 _]]. subst.
        apply in_flat_map in Ht2. destruct Ht2 as [y [Hy Ht2]].
        apply in_map_iff in Ht2. destruct Ht2 as [t2 [E2 _]]. inversion E2. subst. contradiction.
  Qed.
End Cartesian.

"""Shared machinery of C02 / C08 / C13: stage-wise correspondence of the instantiator.

For each input text: parse with the implementation, dump the parse tree, instantiate with the
implementation (fresh parse) and with the model M(q) for the detected quirk vector q, compare
(a) the whole instantiated tree, (b) the projection of Inst/Proj.v against the implementation's own
to_cpp() strings.  The specified behaviour is M(000)."""
import copy
import glob
import json
import os
import random

import common
import dump
import gen_inputs as G
import proj_impl
import sexp

import gtwrap.interface_parser as parser
import gtwrap.template_instantiator as inst

QUIRK_BITS = ['q_cap_all', 'q_scoped_substring', 'q_typedef_stale', 'q_first_level_only']
SPEC = '0' * len(QUIRK_BITS)
WITNESS = {
    'q_cap_all': ('template<T={dd}> class C {};', lambda m: m.content[0].name == 'CDD'),
    'q_scoped_substring': ('template<T={A}> class C { T::Type f(); };',
                           lambda m: m.content[0].methods[0].return_type.to_cpp() == 'A::Aype'),
    'q_typedef_stale': ('namespace a { template<T> class Foo {}; } typedef a::Foo<int> FooInt;', None),
    'q_first_level_only': ('template<T={A}> class C { void f(std::vector<std::vector<T>> x, vector<This> v); };',
                           lambda m: [a.ctype.to_cpp() for a in m.content[0].methods[0].args.list()]
                           == ['std::vector<std::vector<T>>', 'vector<This>']),
}


def impl_instantiate(text):
    return inst.instantiate_namespace(parser.Module.parseString(text))


def detect_quirks():
    bits = ''
    for name in QUIRK_BITS:
        text, pred = WITNESS[name]
        try:
            m = impl_instantiate(text)
            on = pred(m) if pred else False
        except Exception:
            on = pred is None
        bits += '1' if on else '0'
    return bits


def known_findings():
    with open(os.path.join(common.VERIF, 'known_findings.json')) as f:
        return json.load(f)['findings']


def run_impl(text):
    """('ok', parse_dump, tree_dump, proj) | (kind, parse_dump|None, msg)"""
    try:
        pm = parser.Module.parseString(text)
    except Exception as e:
        return (common.classify_exc(e), None, str(e)[:200])
    d = dump.module(pm)
    try:
        im = inst.instantiate_namespace(pm)
        return ('ok', d, dump.items(im), proj_impl.p_items(im))
    except Exception as e:
        return (common.classify_exc(e), d, str(e)[:200])


def run_impl_many(texts):
    """run_impl over many inputs on all cores (pyparsing takes ~0.2 s per module)"""
    import multiprocessing as mp
    n = min(16, max(1, len(texts) // 8))
    if n <= 1:
        return [run_impl(t) for _, t in texts]
    with mp.get_context('fork').Pool(n) as pool:
        return pool.map(run_impl, [t for _, t in texts], chunksize=4)


def gen_texts(tier, seed, n_quick, n_thorough, profile=None):
    """corpus first (fixtures + committed regressions), then generated modules"""
    out = []
    for f in sorted(glob.glob(common.REPO + '/tests/fixtures/*.i')):
        out.append(('fixture:' + os.path.basename(f), open(f).read()))
    for f in sorted(glob.glob(os.path.join(common.VERIF, 'corpus', 'inst', '*.i'))):
        out.append(('corpus:' + os.path.basename(f), open(f).read()))
    n = n_quick if tier == 'quick' else n_thorough
    stats = {}
    for k in range(n):
        r = random.Random('%d/%d' % (seed, k))
        prof = profile or G.Profile(typedef_of_enumerated=(k % 2 == 0), member_param_values=(k % 2 == 1), dup_values=(k % 3 == 0), qualified_typedefs=True, max_ns_depth=4)
        if tier == 'thorough' and k % 3 == 0:
            prof = copy.copy(prof)
            prof.max_decls, prof.max_ns_depth, prof.max_type_depth = 10, 5, 5
            prof.max_tparams, prof.max_tvalues = 3, 5
        g = G.Gen(r, prof)
        m = g.module()
        if k % 5 == 3:
            # a typedef whose target is spelled with a namespace path of two or three components, and a namespace elsewhere
            # whose components repeat the last one (leaf::leaf) holding a template of the same name
            dbl = ('ty', ('tn', [], 'double', []), False, '', True)
            tv = ('ty', ('tn', [], 'T', []), False, '', False)
            box = lambda extra: ('class', ('tmpl', ['T'], [[]]), False, 'BoxT', None,
                                 [('ctor', None, 'BoxT', ())] + extra)
            deep = r.random() < 0.5
            path = ['alpha', 'mid', 'leaf'] if deep else ['alpha', 'leaf']
            inner = [box([('method', None, 'get', ('r1', tv), (), True)]),
                     ('typedef', ('tt', path, 'BoxT', [dbl], False, ''), 'BoxD')]
            for nm in reversed(path):
                inner = [('ns', nm, inner)]
            m = list(m) + inner + [('ns', 'leaf', [('ns', 'leaf', [box([])])])]
            g.count('typedef_target_at_depth_%d' % len(path))
        out.append(('gen:%d/%d' % (seed, k), G.text(G.tokens(m))))
        for a, b in g.stats.items():
            stats[a] = stats.get(a, 0) + b
    return out, stats


MARKERS = ('<AttributeError>', '<IndexError>')


def compare_all(rep, texts, qbits, project, prop_label):
    """the correspondence loop.  `project(proj_sexp)` narrows the projection to the property.
    Returns the list of (name, text) on which impl and M(q) disagree on the property's projection."""
    model = common.Model()
    disagreements = []
    impl_results = run_impl_many(texts)
    try:
        for (name, text), r in zip(texts, impl_results):
            if r[1] is None:
                rep.bump('impl_parse_reject')
                continue
            d = r[1]
            ans_tree = model.ask('inst', [qbits, d])
            ans_proj = model.ask('instproj', [qbits, d])
            spec_proj = model.ask('instproj', [SPEC, d])
            key = common.sha(sexp.dumps(d))
            nontrivial = '"class"' in sexp.dumps(d) or '"fun"' in sexp.dumps(d)
            rep.hit(key, nontrivial)
            kind = r[0]
            if kind == 'ok':
                impl_tree = 'ok ' + sexp.dumps(r[2])
                impl_proj = project(sexp.loads(sexp.dumps(r[3])))
                if ans_proj.startswith('ok '):
                    mproj = project(sexp.loads(ans_proj[3:]))
                else:
                    mproj = ans_proj
                rep.bump('both_ok' if ans_tree.startswith('ok') else 'impl_ok_model_' + ans_tree.split(' ')[0])
                if mproj != impl_proj:
                    disagreements.append((name, text, 'projection', impl_proj, mproj))
                elif impl_tree != ans_tree:
                    rep.bump('tree_differs_outside_projection')
                    disagreements.append((name, text, 'tree', impl_tree[:2000], ans_tree[:2000]))
                # deviation from the specification explained by the detected quirks?
                if spec_proj.startswith('ok '):
                    sproj = project(sexp.loads(spec_proj[3:]))
                    if sproj != impl_proj and mproj == impl_proj:
                        rep.bump('known_deviation_inputs')
                        yield_known(rep, model, d, project, qbits, impl_proj)
                rep.sample({'input': text[:400], 'projection_head': sexp.dumps(impl_proj)[:300]}, cap=3)
            elif kind == 'ValidationError':
                if ans_tree.startswith('err'):
                    rep.bump('both_reject')
                elif ans_tree.startswith('unsupported'):
                    rep.bump('model_unsupported')
                else:
                    disagreements.append((name, text, 'impl-rejects', r[2], ans_tree[:500]))
            else:  # crash in the implementation
                # both runs fail (the model may report a later validation error of the same input first)
                if ans_tree.startswith(('unsupported', 'err')) or any(mk in ans_tree for mk in MARKERS):
                    rep.bump('both_crash_or_unsupported')
                else:
                    disagreements.append((name, text, 'impl-crash:' + kind, r[2], ans_tree[:500]))
    finally:
        model.close()
    return disagreements


def yield_known(rep, model, d, project, qbits, impl_proj):
    """name the known-finding classes active on this input (a quirk bit alone changes the projection)"""
    base = model.ask('instproj', [SPEC, d])
    for i, name in enumerate(QUIRK_BITS):
        if qbits[i] != '1':
            continue
        one = ''.join('1' if j == i else '0' for j in range(len(QUIRK_BITS)))
        if model.ask('instproj', [one, d]) != base:
            rep.bump('known:' + name)

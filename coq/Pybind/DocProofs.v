(* C17: apart from the added docstring literals the generated records are those generated without XML. *)
From Coq Require Import String Ascii List Bool Arith.
From Wrap Require Import Base.Str Base.ListX Syntax.Ast Syntax.Print Inst.Model Inst.Proj
     Pybind.Items Pybind.Gen Pybind.SpecProofs.
Import ListNotations.
Open Scope string_scope.
Open Scope list_scope.

Definition strip_member (m : member) : member :=
  match m with
  | MDef s p self ps r ca ce args py _ red => MDef s p self ps r ca ce args py None red
  | _ => m
  end.
Definition strip_item (i : bitem) : bitem :=
  match i with
  | BClass mv cpp py par inst ms => BClass mv cpp py par inst (map strip_member ms)
  | _ => i
  end.
Definition strip_out (o : out) : out :=
  {| o_items := map strip_item (o_items o); o_includes := o_includes o; o_serial := o_serial o |}.

Section Strip.
  Variable q : pquirks.
  Variable c : cfg.
  Variable doc : option (string -> string -> list string -> string).

  Lemma method_gen_strip : forall is_method name cpp_method r args cpp suffix,
    map strip_member (fst (wrap_method_gen q c doc is_method name cpp_method r args cpp suffix))
    = fst (wrap_method_gen q c None is_method name cpp_method r args cpp suffix)
    /\ snd (wrap_method_gen q c doc is_method name cpp_method r args cpp suffix)
       = snd (wrap_method_gen q c None is_method name cpp_method r args cpp suffix).
  Proof.
    intros. unfold wrap_method_gen.
    destruct (orb _ _); [destruct (boost c); split; reflexivity|].
    destruct (String.eqb name "print"); split; reflexivity.
  Qed.

  Lemma with_insert_strip : forall is_method name cpp_method r args cpp,
    map strip_member (fst (wrap_with_insert q c doc is_method name cpp_method r args cpp))
    = fst (wrap_with_insert q c None is_method name cpp_method r args cpp)
    /\ snd (wrap_with_insert q c doc is_method name cpp_method r args cpp)
       = snd (wrap_with_insert q c None is_method name cpp_method r args cpp).
  Proof.
    intros. unfold wrap_with_insert.
    destruct (andb _ _); cbn [fst snd app]; rewrite ?map_app;
      repeat match goal with
             | |- context [wrap_method_gen q c doc ?a ?b ?d ?e ?f ?g ?h] =>
               let H := fresh in pose proof (method_gen_strip a b d e f g h) as H; destruct H as [-> ->]
             end; split; reflexivity.
  Qed.

  Lemma concat_pairs_strip : forall (A : Type) (f g : A -> list member * list string) (l : list A),
    (forall x, map strip_member (fst (f x)) = fst (g x) /\ snd (f x) = snd (g x)) ->
    map strip_member (fst (concat_pairs (map f l))) = fst (concat_pairs (map g l))
    /\ snd (concat_pairs (map f l)) = snd (concat_pairs (map g l)).
  Proof.
    intros A f g l H. unfold concat_pairs. cbn [fst snd].
    induction l as [|x r [IH1 IH2]]; [split; reflexivity|].
    cbn [map flat_map]. rewrite map_app. destruct (H x) as [H1 H2]. rewrite H1, H2, IH1, IH2. split; reflexivity.
  Qed.

  Lemma wrap_class_strip : forall k,
    map strip_item (fst (wrap_class q c doc k)) = fst (wrap_class q c None k)
    /\ snd (wrap_class q c doc k) = snd (wrap_class q c None k).
  Proof.
    intros k. unfold wrap_class.
    assert (He : forall cpp inst l, map strip_item (map (fun e => BClassEnum (class_enum cpp inst e)) l)
                                    = map (fun e => BClassEnum (class_enum cpp inst e)) l).
    { intros. rewrite map_map. reflexivity. }
    destruct (ignored c (iclass_cpp k)).
    - destruct (q_ignored_enums q); cbn [fst snd]; [rewrite He|]; split; reflexivity.
    - cbn [fst snd map strip_item]. rewrite He.
      destruct (concat_pairs_strip _ (wrap_imethod q c doc (iclass_cpp k)) (wrap_imethod q c None (iclass_cpp k))
                                   (ic_methods k) (fun m => with_insert_strip true _ _ _ _ _)) as [M1 M2].
      destruct (concat_pairs_strip _ (wrap_ismethod q c doc (iclass_cpp k)) (wrap_ismethod q c None (iclass_cpp k))
                                   (ic_statics k) (fun m => with_insert_strip false _ _ _ _ _)) as [S1 S2].
      rewrite M2, S2. split; [|reflexivity]. f_equal. f_equal.
      rewrite !map_app, M1, S1. rewrite !map_map.
      do 5 (apply f_equal2; [reflexivity|]).
      apply map_ext. intros o. unfold wrap_op.
      destruct (String.eqb (o_sym o) "[]"); [reflexivity|].
      destruct (String.eqb (o_sym o) "()"); [reflexivity|].
      destruct (o_args o); reflexivity.
  Qed.

  Lemma strip_out_app : forall a b, strip_out (out_app a b) = out_app (strip_out a) (strip_out b).
  Proof. intros. unfold strip_out, out_app. cbn. rewrite map_app. reflexivity. Qed.

  Lemma funs_strip : forall ns mv (l : list item),
    map strip_item (flat_map (fun x => match x with IFun f => [wrap_function q ns mv f] | _ => [] end) l)
    = flat_map (fun x => match x with IFun f => [wrap_function q ns mv f] | _ => [] end) l.
  Proof.
    intros ns mv l. induction l as [|x r IHr]; [reflexivity|]. cbn [flat_map]. rewrite map_app, IHr. f_equal.
    destruct x; reflexivity.
  Qed.

  Theorem wrap_item_strip : forall i ns inside,
    strip_out (wrap_item q c doc ns inside i) = wrap_item q c None ns inside i.
  Proof.
    induction i as [k|f|d|f|h|e|v|n content IH] using item_ind'; intros ns inside; cbn [wrap_item]; try reflexivity.
    - destruct inside; [|reflexivity]. destruct (wrap_class_strip k) as [H1 H2].
      unfold strip_out. cbn [o_items o_includes o_serial]. rewrite H1, H2. reflexivity.
    - destruct inside; [|reflexivity]. destruct (ignored c (idecl_cpp d)); reflexivity.
    - destruct inside; reflexivity.
    - destruct inside; [|reflexivity]. destruct (v_default v); reflexivity.
    - destruct (negb (partial_match (ns ++ [n]) (top c))); [reflexivity|].
      set (ns' := ns ++ [n]). set (inside' := negb (Nat.ltb (length ns') (length (top c)))).
      assert (Hbody : strip_out ((fix go (l : list item) : out :=
                                    match l with [] => out_nil | x :: r => out_app (wrap_item q c doc ns' inside' x) (go r) end) content)
                      = (fix go (l : list item) : out :=
                           match l with [] => out_nil | x :: r => out_app (wrap_item q c None ns' inside' x) (go r) end) content).
      { induction content as [|x r IHr]; [reflexivity|]. inversion IH as [|? ? Px Pr]; subst.
        rewrite strip_out_app, Px, (IHr Pr). reflexivity. }
      destruct inside'; [|exact Hbody].
      rewrite !strip_out_app, Hbody. f_equal; [destruct (Nat.ltb _ _); reflexivity|]. f_equal.
      unfold strip_out, out_items. cbn [o_items o_includes o_serial]. f_equal. apply funs_strip.
  Qed.

  Theorem wrap_module_strip : forall content,
    strip_out (wrap_module q c doc content) = wrap_module q c None content.
  Proof.
    intros content. unfold wrap_module.
    destruct (negb (partial_match [""] (top c))); [reflexivity|].
    set (inside := negb (Nat.ltb (length [""]) (length (top c)))).
    assert (Hbody : strip_out (fold_right (fun x acc => out_app (wrap_item q c doc [""] inside x) acc) out_nil content)
                    = fold_right (fun x acc => out_app (wrap_item q c None [""] inside x) acc) out_nil content).
    { induction content as [|x r IHr]; [reflexivity|]. cbn [fold_right]. rewrite strip_out_app, wrap_item_strip, IHr. reflexivity. }
    destruct inside; [|exact Hbody].
    rewrite strip_out_app, Hbody. f_equal.
    unfold strip_out, out_items. cbn [o_items o_includes o_serial]. f_equal. apply funs_strip.
  Qed.
End Strip.

"""writes MANIFEST.json from the table below (kept in one place so it stays valid)"""
import json
import os

V = os.path.dirname(os.path.dirname(os.path.abspath(__file__)))
BASE = ("Trusted: Coq 8.16.1 kernel + vm_compute; extraction (ExtrOcamlBasic, ExtrOcamlNativeString, no own "
        "directives) + OCaml; harness glue (dump.py, generators); Python string semantics and pyparsing are modelled. ")
CHECKS = {
    'C02': ('proof', 'Theorems over Inst/Model.v (Props/C02.v): instantiate_type refines capture-free substitution on '
            'dom_ty for every quirk setting (C02_partial), qualifiers/names/defaults untouched unconditionally; the full '
            'statement is refuted by witnesses (depth, substring, This as argument) which are recorded findings. Tie: '
            'stage-wise correspondence of the whole instantiated tree and of every to_cpp() spelling on generated inputs.',
            'partial: dom_ty includes three computed guards on printed spellings; the tie is differential testing.',
            'Coq proof (refinement to substitution) + model/implementation correspondence', '6 C02'),
    'C08': ('proof', 'Theorems (Props/C08.v): itertools-order Cartesian product characterised for all list counts/lengths '
            '(membership, count, no duplicates, i-th tuple = mixed-radix digits), nothing for an empty list, scope '
            'structure at every depth (own declarations then one instantiation per typedef with its name), naming, C++ name. '
            'Naming full statement refuted (capitalises every occurrence) - recorded finding. Tie: correspondence of trees '
            'and of names/order/to_cpp on generated inputs.',
            'typedef lookups through already rewritten namespaces are modelled for forward declarations only (else Unsupported).',
            'Coq proof (product order, scope invariant) + model/implementation correspondence', '6 C08'),
    'C03': ('proof', 'Theorems (Props/C03.v) over the record-level model of the pybind generator: the multiset of binding '
            'keys (scope, kind, Python name, parameter types) generated is a permutation of the declared one (declaration-order '
            'traversal, top namespace at any depth, ignore list, serialization flag), nothing ignored is bound, nothing '
            'outside the top namespace is declared; refuted/repaired pairs for ignored-class enums and keyword table. '
            'Tie: Pybind/Render.v reproduces wrap_file byte for byte on generated inputs x option sets; where bytes differ '
            'the binding keys extracted from both texts decide.',
            'submodule-created-once is checked on outputs, not proved (reopened namespaces violate it: recorded).',
            'Coq proof (permutation of declared keys) + byte-level model/implementation correspondence', '6 C03'),
    'C04': ('proof', 'Theorems (Props/C04.v) under a small formal semantics of pybind11 argument loading and lambda '
            'evaluation (Pybind/Sem.v): a method/static/function binding called with any positional/keyword mix invokes '
            'the declared entity (self-> / Class:: / ns::, explicit template args) with the declared parameters in order, '
            'defaults on the right parameters, returns iff non-void; hypothesis forced: distinct parameter names. '
            'Tie: byte-level correspondence of the generator; view = lambda params, body, py::args per binding.',
            'partial: pybind11 and C++ are formalised, not verified (trusted); compile-and-run validation not in the quick tier.',
            'Coq proof (binding semantics) + byte-level correspondence', '6 C04'),
    'C09': ('proof', 'Theorems (Props/C09.v): every rendered statement leaves a quote-aware bracket scanner unchanged '
            '(balanced, untruncated) for all record lists given balanced user pieces; lambda/py::arg/call counts agree. '
            'Direct checks on implementation output (balance, counts, names, module variables declared once and before use). '
            'Findings: namespaced variable with initialiser, reopened namespace.',
            'partial: "compiles against any conforming library" is reduced to the four syntactic conditions of the statement; '
            'print-redirect records are outside the balance theorem; no compiler run in the quick tier.',
            'Coq proof (balanced rendering) + direct output checks + correspondence', '6 C09'),
    'C15': ('proof', 'Theorem (Props/C15.v): for the pybind generator model, wrap(ignore += x) = wrap(input with every '
            'declaration named x deleted), records/includes/exports alike, global or nested; compositionality of scopes. '
            'Tie: metamorphic experiment on the implementation (ignore vs delete, byte equal) per generated class; the '
            'recorded ignored-class-enums quirk is the only accepted difference and must be explained exactly by the model.',
            'MATLAB half pending its model (not yet covered).',
            'Coq proof (ignore = remove) + metamorphic correspondence', '6 C15'),
    'C16': ('proof', 'Theorems (Props/C16.v): fields of wrap_file - one initialiser declaration and call per additional '
            'file in order, submodule definition `void stem(py::module_ &m_)`, body/includes/exports independent of mode and '
            'name; script namespace-string plumbing. Tie: API vs model bytes for main and submodule files; both script modes '
            'run as subprocesses over the option lattice vs the API.',
            'MATLAB concatenation lemma pending the parser model (not yet covered).',
            'Coq proof (file fields) + subprocess/API/model correspondence', '6 C16'),
    'C05': ('proof', 'Theorem (Props/C05.v) over the model of the MATLAB id allocation walk (Matlab/Ids.v): for every module '
            'the walk accepts there is one table (id, routine, member) whose ids are 0..n-1; the mexFunction switch is exactly '
            'its (id, callee) pairs in order, the routines emitted are exactly its (name, member) pairs, and the ids written '
            'into the .m files with their members are a permutation of its (id, member) pairs - invariant: a reserved up-cast id '
            'is always followed by its collector. Tie: the real toolbox is generated; every <module>_wrapper(<id> call site '
            '(file, function, arity), case label and routine definition is extracted and compared with the model; the '
            'property is also checked directly on the toolbox.',
            'routine names are compared as (name, id) pairs; injectivity of name_<decimal id> is not proved.',
            'Coq proof (dispatch-table invariant) + toolbox/model correspondence + direct check', '6 C05'),
    'C06': ('proof', 'Theorems (Props/C06.v) over Matlab/Ids.v+Arity.v: default expansion yields exactly the arities n..n-k in '
            'order, each overload a prefix of the declared list, gaps rejected; unwrap positions consecutive from the offset; '
            'the call passes explicit parameters by name and omitted defaults by their original text. Static-method outputs '
            'refuted (always varargout{1}; pinned). Tie: per gateway id the COMPLETE C++ routine text and the MATLAB guard and '
            'call lines of the generated toolbox equal the model byte for byte (whitespace-only differences ignored), plus '
            'count/position agreement checked directly, plus a stream of default-gap inputs that must be rejected.',
            'two crash classes of the MATLAB wrapper are recorded findings; the C++ compiler is not run in the quick tier.',
            'Coq proof (expansion arithmetic) + byte-level routine correspondence + direct checks', '6 C06'),
    'C10': ('proof', 'Theorems (Props/C10.v): the files written equal the expected set (one classdef per non-ignored '
            'instantiation, enum classdefs incl. class-scoped ones below the class package, one file per function name, '
            '+package paths, one MEX source) at any namespace depth; class-enum path refuted for depth >= 2 and proved for the '
            'repaired quirk; preamble list characterised. Tie: directory listing, classdef skeletons (name, base, pointer '
            'property, properties, methods, statics), enumerator numbering, collector typedefs/declarations, '
            'deleteAllObjects, RTTI and instantiation typedefs parsed from the generated toolbox vs Matlab/Files.v.',
            'skeleton facts are model-vs-output comparisons, not theorems.',
            'Coq proof (file set) + toolbox/model correspondence', '6 C10'),
    'C14': ('proof', 'Theorems (Props/C14.v): a PybindWrapper modelled as a state machine over wrap_file calls returns to its '
            'initial state after every call that succeeds or fails before registering a class, so the next output equals a '
            'fresh wrapper\'s (invariant by induction over histories); the full statement is refuted (leak after a late '
            'failure: recorded finding). Generator models are Gallina functions: output is a function of (tree, options, '
            'template) by typing. Observed, not proved: both generators in fresh processes under several PYTHONHASHSEED '
            'values, working directories and locales give identical sha256 for every output file and write nothing else; '
            'call histories on one wrapper vs fresh wrappers; 16 parallel script processes in one directory.',
            'partial: hash seed, locale, cwd, process identity and parallel writers are outside any executable model; they '
            'are monitored by the experiments only (sha256 across environments, strace of both scripts: nothing written outside the requested output).',
            'Coq proof (reset invariant over call histories) + environment/history/parallel experiments', '6 C14'),
    'C17': ('proof', 'Theorems (Props/C17.v): cpp_decode(literal s) = utf8 s for every text of printable characters (table '
            'regenerated from the running interpreter) plus tab/newline/CR, any mix of quotes and backslashes - full statement '
            'refuted (U+0085+hex digit, U+00A0); the k-th request with one key returns the k-th matching member definition '
            '(memory invariant); kept members are candidates whose parameter names match; generated records with XML, '
            'docstrings removed, equal those without XML. Tie: generated Doxygen worlds x query sequences vs Xml/Doc.v; texts over '
            'Unicode through the wrapper\'s literal expression vs Xml/Escape.v and the verified decoder; with/without XML.',
            'ElementTree / str.strip are modelled (ASCII whitespace); the C++ lexer\'s escape decoding is formalised, g++ not run in quick.',
            'Coq proof (escape round trip, selection invariant, non-interference) + correspondence', '6 C17'),
    'C18': ('proof', 'Theorems (Props/C18.v) over a Z-arithmetic model of matlab.h (Runtime/Mx.v): wrap then unwrap is the '
            'identity for every bool, char, unsigned char, int, size_t (all 64 bits), every double bit pattern, every NUL-free '
            'string (full statement refuted: embedded NUL), every vector length and matrix shape with element positions '
            '(column-major index lemma), ill-typed arrays are errors; handles: a received proxy designates the same object at '
            'every inheritance level and an object is alive iff some proxy holds a cell for it (Runtime/Gateway.v invariant). '
            'Tie: a C++ driver compiled against the REAL matlab.h and a mock MEX API compares array class, shape, cells and the '
            'unwrapped value with the model; generated gateways (as generated and with isVirtual switched on) driven through '
            'random wrap/unwrap/release histories compare collector sizes, live objects and double frees per step.',
            'partial: the C++ compiler, libstdc++ shared_ptr and the mock MEX API are trusted; float formatting is never compared.',
            'Coq proof (mod-arithmetic round trips, ownership invariant) + compiled-C++ correspondence', '6 C18'),
    'C11': ('proof', 'Theorems (Props/C11.v): for every class forest and every history of Construct / Receive / Make / Delete / '
            'Unload in which the session deletes only proxies it holds, the ownership invariant holds in every reachable state '
            '(distinct cells, each in its collector, each held by exactly one proxy, nothing freed twice), deletion touches no '
            'other proxy, unloading releases everything; call id -> routine of the same member is the C05 dispatch-table theorem. '
            'Full statement refuted (delete after clear mex: double free) - recorded finding. Tie: generated gateways compiled '
            'with the real matlab.h against a mock MEX API, an instrumented library and an allocator that never reuses memory, '
            'driven by a MATLAB-session simulator with ids/arity/property names read from the generated .m files; per step: '
            'collector sizes, live objects per class, double-free flag vs the model, call trace and result vs the declared entity.',
            'partial: that a reached routine passes the supplied values and returns the result is observed (trace), not proved; '
            'the MATLAB side (classdef constructor protocol, delete order) is simulated from the generated .m text.',
            'Coq proof (ownership invariant over histories) + compiled-gateway correspondence', '6 C11'),
    'C01': ('proof', 'The grammar of gtwrap.interface_parser is regenerated on every run from the LIVE pyparsing objects as a deep '
            'Gallina term (gen/Grammar.v) and interpreted by Parse/Peg.v (And, Or = longest with first on ties, MatchFirst, Optional, '
            'ZeroOrMore, Suppress, results names, filler skipping, Keyword look-around, the DEFAULT_ARG scanner, tab expansion); '
            'Parse/Build.v mirrors the node constructors incl. their validation. Obligations (Props/C01.v): the regenerated term IS '
            'the hand-written grammar the theorems are about; fingerprints of DEFAULT_ARG and the comment expression unchanged. '
            'Theorems (Parse/RoundTrip.v, Parse/RoundTripModule.v): C01_type_roundtrip - every well-formed type, printed, parses back to itself at any depth; '
            'C01_arglist_roundtrip / C01_function_roundtrip - argument lists of any length and whole function declarations; C01_items_roundtrip - a '
            'whole FILE of functions (single or pair return), variables, includes, enumerations, typedefs, forward declarations and classes (optional plain base; constructors, methods, static methods, properties, nested enumerations) inside namespaces nested to any depth goes through Module.parseString (tab expansion, the 8-way longest-match alternation, repetition, StringEnd, '
            'node constructors) and comes back as exactly those declarations, never "unsupported". Decided per input: (a) implementation '
            'tree = the declarations the generator rendered (kinds, names, nesting, types to any depth, template lists, default text, '
            'bases, flags), (b) model tree = implementation tree, in five layout styles; recorded findings by witness.',
            'partial: the print/parse round-trip THEOREMS cover types (basic and custom, namespace paths, const/*/@/&, template arguments to any '
            'depth), argument lists without defaults, function declarations, variables, includes, enumerations, typedefs, forward declarations, classes with constructors / methods / static methods / properties / nested enumerations, and namespaces around them at any depth; '
            'for templates, templated bases, operators, dunder methods, defaults the mirror '
            'property is decided by the generator-based comparison and the model tie (sampling); pyparsing semantics is modelled.',
            'Coq model regenerated from live grammar objects (translator) + tie obligations + model/implementation correspondence', '6 C01'),
    'C07': ('proof', 'Theorems (Props/C07.v) for EVERY grammar over pyparsing\'s terminals: whatever the interpreter matches, the text '
            'consumed is exactly an interleaving of filler and of the texts matched by terminals in order, and the leaves of the match '
            'tree are the terminal texts not under Suppress (no character is stepped over otherwise); Module.parseString accepts only '
            'when this covering reaches the end of the text. Tie: grammar regenerated from live objects + obligation. Decided per '
            'input: token-level corruptions (delete/duplicate/swap/truncate/stray/drop-range) in all layouts - implementation verdict '
            'class, termination, bag-of-characters accounting of accepted trees, model verdict and tree; failing runs of both scripts '
            'and generators (incl. submodule mode, default-before-non-default) exit non-zero and leave the output directory untouched.',
            'partial: file-system effects and exit codes are observed, not modelled; accounting of the AST (not the match tree) is checked, not proved.',
            'Coq proof (covering invariant of the interpreter) + corruption correspondence + file-system experiments', '6 C07'),
    'C12': ('proof', 'Theorem (Props/C12.v, Parse/Layout.v) for EVERY grammar over pyparsing\'s terminals and so for the regenerated one: '
            'two texts with the same skeleton (same characters outside white space and comments, filler runs of any content and length '
            '>= 1 at the same places) get the same verdict and the same tree from the real interpreter, provided the parse never reaches '
            'a default value, an #include path or a two-word keyword split by filler (decidable side condition strict_parse); proved by a '
            'simulation over filler-robust terminals, a position-chain argument for Or\'s longest-match comparison, fuel monotonicity. '
            'Full statement refuted three ways by computation (recorded findings). Decided per input: 6-8 renderings of one token list '
            '(incl. comments holding braces/quotes/keywords) - implementation trees, pybind and MATLAB bytes, model trees.',
            'Second step (Parse/Insert.v): opening a gap (one blank between two characters no reached terminal can match across) '
            'preserves the parse; relayout = finite compositions of both steps, C12_relayout. partial: texts with defaults/#include are '
            'outside both steps; relatedness of two given layouts is shown step by step, not decided; the renderings cover the rest.',
            'Coq proof (layout simulation for the grammar interpreter) + re-layout correspondence', '6 C12'),
    'C19': ('proof', 'Theorem (Props/C19.v, Cost/Memo.v): a memoising evaluator computes pairwise distinct keys of the key space, hence at '
            'most 4 * nodes * (n + 1) evaluations for a text of length n - independent of nesting depth; obligation from the translator: '
            'packrat is enabled at import. Decided by measurement in fresh processes (ParserElement._parseNoCache wrapped by a counter): '
            '11 families scaled in namespace depth (incl. commented headers), template-argument depth, declarations, argument lists; '
            'distinct keys within the proved key-space bound; evaluation count ratio <= 6 per doubling; memoisation still on for the '
            '2nd/3rd file of a process; CPU limits.',
            'partial: pyparsing\'s table is a 128-entry FIFO, so keys are recomputed after eviction (measured growth is quadratic in depth, '
            'not linear); CPU time is outside any model. The theorem is the idealised bound, the polynomial claim for the real table is measured.',
            'Coq proof (idealised packrat bound) + evaluation-count measurements', '6 C19'),
    'C13': ('proof', 'Theorems (Props/C13.v): an instantiation is a function of its own argument tuple only (lists are '
            'never read), pointwise image of the product; alpha-invariance on the C02 domain via the substitution spec; '
            'refuted in general by the substring rewrite (recorded). Tie: metamorphic experiments on the implementation '
            '(subset, permutation, repetition on fresh parses, alpha-renaming) judged against the model, plus the '
            'C02/C08 tree correspondence which exposes state shared between instantiations.',
            'the pure model cannot exhibit aliasing; a missing copy is caught by the correspondence, not by a theorem.',
            'Coq proof (independence lemmas) + metamorphic correspondence', '6 C13'),
}


def main():
    props = [json.loads(l) for l in open(os.path.join(V, 'properties.jsonl'))]
    checks = []
    na = []
    for p in props:
        pid = p['id']
        if pid in CHECKS:
            lvl, text, note, tech, ref = CHECKS[pid]
            checks.append({
                'property_id': pid,
                'quick_cmd': './check %s --tier quick' % pid,
                'thorough_cmd': './check %s --tier thorough' % pid,
                'evidence_file': 'evidence/%s.json' % pid,
                'replay_cmd_template': './check %s --replay {path}' % pid,
                'engine': 'coq-model',
                'level_claimed': {'category': lvl, 'text': text, 'design_ref': 'DESIGN.md section ' + ref},
                'level_note': BASE + note,
                'technique': tech,
            })
        else:
            na.append({'property_id': pid, 'reason': 'model not built yet in this session (planned, DESIGN.md section 11); not claimed until its check exists'})
    man = {
        'version': 1,
        'setup_cmd': './setup.sh',
        'hooks': {'guard': 'GTWRAP_VERIF', 'enable': 'none needed: checks import /repo as is; counters are installed by wrapping pyparsing from the harness process',
                  'baseline_off_cmd': 'cd /repo && /venv/bin/python -m pytest -ra -q -p no:cacheprovider --timeout=900 --continue-on-collection-errors',
                  'source_commits': [], 'add_only': True},
        'engines': [{'name': 'coq-model', 'path': 'coq/', 'serves_properties': sorted(CHECKS),
                     'kind_free_text': 'Coq 8.16 development: executable Gallina model + theorems; extracted to OCaml for the correspondence'}],
        'checks': checks,
        'not_applicable': na,
        'notes': 'see DESIGN.md (section 0 is the as-built description); known findings in known_findings.json (two are repaired in /repo by fix: commits b36fa04 and b4bd6b4); seeded changes and what reports them in seeded/*/meta.json',
    }
    with open(os.path.join(V, 'MANIFEST.json'), 'w') as f:
        json.dump(man, f, indent=1)


if __name__ == '__main__':
    main()

"""The C02/C08/C13 projection computed on the implementation's objects through their own
to_cpp() methods (mirror of coq/Inst/Proj.v, which computes it on the model's tree)."""
import gtwrap.interface_parser as parser
import gtwrap.template_instantiator as inst
from dump import home_of, DumpError


def p_args(al):
    out = []
    for a in al.list():
        out.append([a.ctype.to_cpp(), a.name, [] if a.default is None else [a.default]])
    return out


def p_iclass(c):
    return ['class', c.name, c.to_cpp(), home_of(c),
            [] if not c.parent_class else [c.parent_class.to_cpp()],
            [[k.name, k.to_cpp(), p_args(k.args)] for k in c.ctors],
            [[m.name, m.to_cpp(), m.return_type.to_cpp(), p_args(m.args), bool(m.is_const)] for m in c.methods],
            [[m.name, m.to_cpp(), m.return_type.to_cpp(), p_args(m.args)] for m in c.static_methods],
            [[v.ctype.to_cpp(), v.name] for v in c.properties],
            [[o.operator, o.return_type.to_cpp(), p_args(o.args)] for o in c.operators]]


def p_items(ns):
    out = []
    for e in ns.content:
        t = type(e)
        if t is inst.InstantiatedClass:
            out.append(p_iclass(e))
        elif t is inst.InstantiatedGlobalFunction:
            out.append(['fun', e.name, e.to_cpp(), home_of(e), e.return_type.to_cpp(), p_args(e.args)])
        elif t is inst.InstantiatedDeclaration:
            out.append(['decl', e.name, e.to_cpp()])
        elif t is parser.ForwardDeclaration:
            out.append(['fwd', e.name])
        elif t is parser.Include:
            out.append(['include', e.header])
        elif t is parser.Enum:
            out.append(['enum', e.name])
        elif t is parser.Variable:
            out.append(['var', e.name])
        elif t is parser.Namespace:
            out.append(['ns', e.name, p_items(e)])
        else:
            raise DumpError('instantiated namespace element %s' % t)
    return out

(* Python-style string operations used by the models.  Definitions only. *)
From Coq Require Import String Ascii List Bool Arith.
Import ListNotations.
Open Scope string_scope.

Definition is (c d : ascii) : bool := Ascii.eqb c d.
Arguments is : simpl never.

Fixpoint drop (n : nat) (s : string) : string :=
  match n, s with
  | 0, _ => s
  | S n', String _ s' => drop n' s'
  | S _, EmptyString => EmptyString
  end.

Fixpoint take (n : nat) (s : string) : string :=
  match n, s with
  | 0, _ => EmptyString
  | S n', String c s' => String c (take n' s')
  | S _, EmptyString => EmptyString
  end.

(* `sub in s` for non-empty sub (Python: substring test) *)
Fixpoint contains (sub s : string) : bool :=
  if String.prefix sub s then true
  else match s with
       | EmptyString => false
       | String _ s' => contains sub s'
       end.

(* Python s.replace(old, new), old non-empty: leftmost, non-overlapping *)
Fixpoint replace_aux (old new : string) (skip : nat) (s : string) : string :=
  match s with
  | EmptyString => EmptyString
  | String c s' =>
    match skip with
    | S k => replace_aux old new k s'
    | 0 => if String.prefix old s
           then new ++ replace_aux old new (String.length old - 1) s'
           else String c (replace_aux old new 0 s')
    end
  end.
Definition replace_all (old new s : string) : string :=
  match old with
  | EmptyString => s
  | _ => replace_aux old new 0 s
  end.

(* Python s.split(sep), sep non-empty *)
Fixpoint split_aux (sep : string) (skip : nat) (cur : string) (s : string) : list string :=
  match s with
  | EmptyString => [cur]
  | String c s' =>
    match skip with
    | S k => split_aux sep k cur s'
    | 0 => if String.prefix sep s
           then cur :: split_aux sep (String.length sep - 1) EmptyString s'
           else split_aux sep 0 (cur ++ String c EmptyString) s'
    end
  end.
Definition split_on (sep s : string) : list string := split_aux sep 0 EmptyString s.

Definition join (sep : string) (l : list string) : string := String.concat sep l.

Fixpoint mem_str (x : string) (l : list string) : bool :=
  match l with
  | [] => false
  | y :: l' => if String.eqb x y then true else mem_str x l'
  end.

(* Python list.index: position of the first occurrence *)
Fixpoint index_of (x : string) (l : list string) : option nat :=
  match l with
  | [] => None
  | y :: l' => if String.eqb x y then Some 0
               else match index_of x l' with Some n => Some (S n) | None => None end
  end.

(* ASCII upper-casing of one character (str.capitalize on a 1-char string, ASCII) *)
Definition upper_ascii (c : ascii) : ascii :=
  let n := nat_of_ascii c in
  if andb (Nat.leb 97 n) (Nat.leb n 122) then ascii_of_nat (n - 32) else c.
Definition lower_ascii (c : ascii) : ascii :=
  let n := nat_of_ascii c in
  if andb (Nat.leb 65 n) (Nat.leb n 90) then ascii_of_nat (n + 32) else c.

Fixpoint map_str (f : ascii -> ascii) (s : string) : string :=
  match s with
  | EmptyString => EmptyString
  | String c s' => String (f c) (map_str f s')
  end.
Definition lower (s : string) : string := map_str lower_ascii s.
Definition upper (s : string) : string := map_str upper_ascii s.

(* name.replace(name[0], name[0].capitalize()) : every occurrence of the first
   character is upper-cased (quirk q_cap_all); cap_first is the specified version. *)
Definition cap_all (s : string) : string :=
  match s with
  | EmptyString => EmptyString
  | String c _ => map_str (fun d => if is d c then upper_ascii c else d) s
  end.
Definition cap_first (s : string) : string :=
  match s with
  | EmptyString => EmptyString
  | String c s' => String (upper_ascii c) s'
  end.

(* decimal printing of nat *)
Definition digit (n : nat) : ascii := ascii_of_nat (48 + n).
Fixpoint nat_dec_aux (fuel n : nat) (acc : string) : string :=
  match fuel with
  | 0 => acc
  | S f => let acc' := String (digit (n mod 10)) acc in
           if Nat.ltb n 10 then acc' else nat_dec_aux f (n / 10) acc'
  end.
Definition nat_dec (n : nat) : string := nat_dec_aux (S n) n EmptyString.

Fixpoint rev_str_aux (s acc : string) : string :=
  match s with EmptyString => acc | String c s' => rev_str_aux s' (String c acc) end.
Definition rev_str (s : string) : string := rev_str_aux s EmptyString.

Definition str_of_list (l : list ascii) : string := string_of_list_ascii l.
Definition list_of_str (s : string) : list ascii := list_ascii_of_string s.

Definition suffixb (suf s : string) : bool :=
  String.prefix (rev_str suf) (rev_str s).

Fixpoint strip_left (s : string) : string :=
  match s with
  | String c s' => if orb (is c " "%char) (orb (is c "010"%char) (orb (is c "009"%char) (is c "013"%char)))
                   then strip_left s' else s
  | EmptyString => EmptyString
  end.
Definition strip (s : string) : string := rev_str (strip_left (rev_str (strip_left s))).

"""./check <property> --tier quick|thorough [--replay FILE]"""
import argparse
import importlib
import json
import os
import sys
import time
import traceback

sys.path.insert(0, os.path.dirname(os.path.abspath(__file__)))
import build  # noqa: E402
import common  # noqa: E402

TRUSTED_BASE = [
    'Coq 8.16.1 kernel incl. vm_compute (no native_compute)',
    'extraction: ExtrOcamlBasic + ExtrOcamlNativeString (library directives only), OCaml 4.13.1, ocaml/driver.ml',
    'translator harness/translate.py (reads live Python objects)',
    'correspondence glue: harness/dump.py, generators, canonicalisation',
    'modelled, not verified: Python string semantics, pyparsing matching',
]


# wall-clock limits of one check (seconds).  On the unchanged tree the slowest quick check takes about 150 s and the
# slowest thorough check about 2200 s (35 and 80 minutes were measured with four other checks running beside it); a check
# that is still running after this long on a changed tree is stuck in the changed code or in the harness's own
# post-processing of its output, and then reports nothing at all - which is a miss, not a pass.
LIMITS = {'quick': 3600, 'thorough': 6 * 3600}


def supervise(prop, tier, seed):
    """run the check in a child process of its own session; when it does not finish within the limit, stop it and report
    that the property is no longer shown to hold (no failing input: the run did not get that far)"""
    import signal
    import subprocess
    limit = int(os.environ.get('VERIF_WATCHDOG_S', '0')) or LIMITS[tier]
    p = subprocess.Popen([sys.executable] + sys.argv, env=dict(os.environ, VERIF_CHILD='1'), start_new_session=True)

    def forward(sig, frame):
        try:
            os.killpg(p.pid, signal.SIGKILL)
        finally:
            os._exit(128 + sig)
    signal.signal(signal.SIGTERM, forward)
    signal.signal(signal.SIGINT, forward)
    try:
        return p.wait(timeout=limit)
    except subprocess.TimeoutExpired:
        try:
            os.killpg(p.pid, signal.SIGKILL)
        except ProcessLookupError:
            pass
        p.wait()
        rep = common.Report(prop, tier, seed)
        rep.coverage['rule'] = 'the run was stopped by the watchdog before it produced its coverage'
        rep.coverage['samples'] = []
        rep.violation({'kind': 'did-not-finish', 'what': 'the check was still running after %d s (limit of the %s tier; on the '
                       'unchanged tree it finishes in a small fraction of that): it is stuck in the code under test or in '
                       'the processing of its output, so the property is not shown to hold on this tree' % (limit, tier),
                       'theorem_or_correspondence': 'every correspondence of %s (none completed)' % prop}, no_input=True)
        return rep.finish()


def main():
    ap = argparse.ArgumentParser()
    ap.add_argument('prop')
    ap.add_argument('--tier', default=os.environ.get('VERIF_TIER', 'quick'), choices=['quick', 'thorough'])
    ap.add_argument('--replay', default=None)
    ap.add_argument('--seed', type=int, default=int(os.environ.get('VERIF_SEED', '20261001')))
    a = ap.parse_args()
    prop = a.prop
    if not os.environ.get('VERIF_CHILD'):
        sys.exit(supervise(prop, a.tier, a.seed))
    try:
        # the child does not outlive its supervisor
        import ctypes
        import signal
        ctypes.CDLL('libc.so.6').prctl(1, signal.SIGKILL)
    except Exception:
        pass
    rep = common.Report(prop, a.tier, a.seed)
    mod = importlib.import_module('props.' + prop.lower())
    proof_ok = True
    try:
        with build.Lock():
            gen_ok, gen_out = build.regenerate()
            if not gen_ok:
                rep.violation({'kind': 'broken-correspondence', 'what': 'translator failed (tie broken)',
                               'detail': gen_out[-3000:]}, no_input=True)
            bad = build.hygiene()
            if bad:
                rep.violation({'kind': 'broken-theorem', 'what': 'forbidden vernacular in development', 'detail': bad},
                              no_input=True)
            target = 'Props/%s.vo' % prop
            ok, log, secs = build.coq_target(target)
            files = build.cone('Props/%s.v' % prop)
            nstmt, names = build.count_statements(files)
            closed = 0
            axioms = []
            if ok:
                aok, closed, axioms, aout = build.assumptions_of('Props/%s.v' % prop)
                ok = ok and aok
            proof_ok = ok
            rep.coverage['obligations'] = nstmt
            rep.coverage['discharged'] = nstmt if ok else 0
            rep.coverage['checker_cmd'] = 'cd coq && make %s   (full .vo build, coqc 8.16.1)' % target
            rep.coverage['trusted_base'] = TRUSTED_BASE + list(getattr(mod, 'TRUSTED', []))
            rep.coverage['cone_files'] = files
            rep.coverage['print_assumptions_closed'] = closed
            rep.coverage['axioms'] = axioms
            rep.coverage['coq_build_s'] = round(secs, 1)
            mok, mout = build.model_binary()
            if not mok:
                raise RuntimeError('model binary build failed:\n' + mout[-3000:])
        if not proof_ok:
            # a broken proof is not by itself a violation: the module searches for a failing input
            rep.coverage['broken_proof_log'] = log[-2000:]
        res = mod.run(rep, a.tier, a.seed, replay=a.replay, proof_ok=proof_ok)
        if not proof_ok and not rep.violations:
            rep.violation({'kind': 'broken-theorem', 'theorem_file': 'coq/Props/%s.v' % prop,
                           'log': log[-3000:]}, no_input=True)
    except Exception:
        tb = traceback.format_exc()
        rep.violation({'kind': 'harness-error', 'traceback': tb[-4000:]}, no_input=True)
        sys.stderr.write(tb)
    rc = rep.finish()
    sys.exit(rc)


if __name__ == '__main__':
    main()

// stand-in for gtsam::Vector (Eigen dynamic vector): size(), operator()(i), constructor from size
#pragma once
#include <memory>
#include <vector>
#include <cstddef>
namespace gtsam {
class Vector {
 public:
  Vector() {}
  explicit Vector(int m) : d_(m, 0.0) {}
  int size() const { return (int)d_.size(); }
  double &operator()(int i) { return d_[i]; }
  const double &operator()(int i) const { return d_[i]; }
 private:
  std::vector<double> d_;
};
}

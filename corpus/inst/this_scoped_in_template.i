// `This::X` in every instantiation of a class template (kept from seeded change C09-m1: the parsed type shared
// between instantiations and rewritten in place)
template<T = {double, int}>
class Holder {
  enum Mode { FAST, SAFE };
  Holder(const This::Mode& mode);
  void setMode(const This::Mode& mode);
  This::Mode mode() const;
};

"""Build steps shared by every check: regenerate gen/*.v from /repo, compile the property's cone
(full .vo), hygiene grep, collect Print Assumptions, build the extracted model binary."""
import fcntl
import glob
import os
import re
import subprocess
import sys
import time

from common import VERIF, BUILD, MODEL_BIN

COQ = os.path.join(VERIF, 'coq')
LOGS = os.path.join(BUILD, 'logs')
FORBIDDEN = re.compile(r'\b(Admitted|admit|Axiom|Parameter|Conjecture|Unset Guard|bypass_check|type-in-type|'
                       r'Admit Obligations|impredicative-set|Unset Positivity|Unset Universe)\b')


class Lock:
    def __enter__(self):
        os.makedirs(BUILD, exist_ok=True)
        self.f = open(os.path.join(BUILD, '.lock'), 'w')
        fcntl.flock(self.f, fcntl.LOCK_EX)
        return self

    def __exit__(self, *a):
        fcntl.flock(self.f, fcntl.LOCK_UN)
        self.f.close()


def sh(cmd, cwd=None, timeout=900, env=None):
    p = subprocess.run(cmd, shell=True, cwd=cwd, capture_output=True, text=True, timeout=timeout, env=env)
    out = '\n'.join(l for l in (p.stdout + p.stderr).split('\n') if not l.startswith('WARNING'))
    return p.returncode, out


def hygiene():
    """no Admitted / admit / Axiom / Parameter / Conjecture / guard switches anywhere in the development, and no
    Variable / Hypothesis / Context outside a Section (comments and string literals are removed first)"""
    bad = []
    decl = re.compile(r'(?:^|(?<=[.]\s))\s*(?:Local\s+|Global\s+|Polymorphic\s+)?'
                      r'(Axiom|Axioms|Parameter|Parameters|Conjecture|Conjectures|Admitted|Admit\s+Obligations)\b', re.M)
    switches = re.compile(r'\b(Unset\s+Guard|Unset\s+Positivity|Unset\s+Universe|bypass_check|type-in-type|impredicative-set|'
                          r'Guard\s+Checking|Positivity\s+Checking|Universe\s+Checking)\b')
    tactic = re.compile(r'\b(admit|give_up)\b')
    secvar = re.compile(r'^\s*(Variable|Variables|Hypothesis|Hypotheses|Context)\b')
    for f in glob.glob(os.path.join(COQ, '**', '*.v'), recursive=True):
        txt = open(f).read()
        txt = re.sub(r'"(?:[^"]|"")*"', '""', txt)
        # nested comments: strip innermost repeatedly
        prev = None
        while prev != txt:
            prev = txt
            txt = re.sub(r'\(\*(?:(?!\(\*|\*\)).)*\*\)', ' ', txt, flags=re.S)
        rel = os.path.relpath(f, VERIF)
        for m in decl.finditer(txt):
            bad.append('%s: %s' % (rel, m.group(1)))
        for m in switches.finditer(txt):
            bad.append('%s: %s' % (rel, m.group(1)))
        for m in tactic.finditer(txt):
            bad.append('%s: %s' % (rel, m.group(1)))
        depth = 0
        for line in txt.split('\n'):
            if re.match(r'^\s*Section\s+\w+\s*\.', line):
                depth += 1
            elif re.match(r'^\s*End\s+\w+\s*\.', line) and depth > 0:
                depth -= 1
            elif depth == 0 and secvar.match(line):
                bad.append('%s: %s outside a section' % (rel, secvar.match(line).group(1)))
    for opt in ('-type-in-type', '-impredicative-set', '-vos', '-vok'):
        if opt in open(os.path.join(COQ, '_CoqProject')).read():
            bad.append('_CoqProject: ' + opt)
    return bad


def ensure_makefile():
    mk = os.path.join(COQ, 'Makefile')
    proj = os.path.join(COQ, '_CoqProject')
    if not os.path.exists(mk) or os.path.getmtime(mk) < os.path.getmtime(proj):
        rc, out = sh('coq_makefile -f _CoqProject -o Makefile', cwd=COQ)
        if rc != 0:
            raise RuntimeError('coq_makefile failed: ' + out)


def regenerate():
    """translator: gen/*.v from the live objects of /repo (content-compared)"""
    tr = os.path.join(VERIF, 'harness', 'translate.py')
    if not os.path.exists(tr):
        return True, ''
    env = dict(os.environ, PYTHONPATH=os.environ.get('VERIF_REPO', '/repo'), PYTHONHASHSEED='0')
    rc, out = sh('/venv/bin/python %s' % tr, cwd=VERIF, env=env, timeout=300)
    return rc == 0, out


def coq_target(target: str, jobs: int = 8, timeout: int = 1500):
    """make one .vo (with its dependency cone); returns (ok, log)"""
    ensure_makefile()
    os.makedirs(LOGS, exist_ok=True)
    t0 = time.time()
    rc, out = sh('timeout %d make -j%d %s' % (timeout, jobs, target), cwd=COQ, timeout=timeout + 30)
    with open(os.path.join(LOGS, target.replace('/', '_') + '.log'), 'w') as f:
        f.write(out)
    return rc == 0, out, time.time() - t0


def cone(target_v: str):
    """the .v files a property file depends on (transitively), via coqdep"""
    files = [l.strip() for l in open(os.path.join(COQ, '_CoqProject')) if l.strip().endswith('.v')]
    files = [f for f in files if os.path.exists(os.path.join(COQ, f))]
    p = subprocess.run(['coqdep', '-Q', '.', 'Wrap'] + files, cwd=COQ, capture_output=True, text=True)
    out = p.stdout
    deps = {}
    for line in out.split('\n'):
        if ':' not in line:
            continue
        lhs, rhs = line.split(':', 1)
        tgt = lhs.split()[0]
        if not tgt.endswith('.vo'):
            continue
        deps[tgt[:-1]] = [d[:-1] for d in rhs.split() if d.endswith('.vo')]
    seen = set()
    todo = [target_v]
    while todo:
        x = todo.pop()
        x = os.path.normpath(x)
        if x in seen:
            continue
        seen.add(x)
        todo += [os.path.normpath(d) for d in deps.get(x, [])]
    return sorted(seen)


STMT = re.compile(r'^\s*(Theorem|Lemma|Corollary|Example|Fact|Proposition)\s+([A-Za-z0-9_\']+)', re.M)


def count_statements(files):
    n = 0
    names = []
    for f in files:
        p = os.path.join(COQ, f)
        if os.path.exists(p):
            for m in STMT.finditer(open(p).read()):
                n += 1
                names.append(m.group(2))
    return n, names


def assumptions_of(prop_file: str):
    """re-run coqc on the (already compiled) property file to capture Print Assumptions output"""
    rc, out = sh('timeout 600 coqc -Q . Wrap %s' % prop_file, cwd=COQ, timeout=630)
    closed = out.count('Closed under the global context')
    axioms = []
    cur = None
    for line in out.split('\n'):
        if line.startswith('Axioms:'):
            cur = True
            continue
        if cur and line.strip() and not line.startswith('Closed'):
            axioms.append(line.strip())
    return rc == 0, closed, axioms, out


def model_binary():
    """(re)build the extracted OCaml model when Run.vo is newer than the binary"""
    ok, out, _ = coq_target('Run.vo')
    if not ok:
        return False, out
    run_vo = os.path.join(COQ, 'Run.vo')
    od = os.path.join(BUILD, 'ocaml')
    os.makedirs(od, exist_ok=True)
    if os.path.exists(MODEL_BIN) and os.path.getmtime(MODEL_BIN) >= os.path.getmtime(run_vo) \
            and os.path.getmtime(MODEL_BIN) >= os.path.getmtime(os.path.join(VERIF, 'ocaml', 'driver.ml')):
        return True, 'up to date'
    cmds = [
        'cp %s/Extract/Extract.v %s/Extract.v' % (COQ, od),
        'cd %s && timeout 300 coqc -Q %s Wrap Extract.v' % (od, COQ),
        'cp %s/ocaml/driver.ml %s/driver.ml' % (VERIF, od),
        'cd %s && timeout 300 ocamlfind ocamlopt -O2 -w -a model.mli model.ml driver.ml -o model.tmp && mv model.tmp model' % od,
    ]
    for c in cmds:
        rc, out = sh(c, timeout=400)
        if rc != 0:
            return False, c + '\n' + out
    return True, 'rebuilt'

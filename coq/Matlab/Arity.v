(* Faithful model of the MATLAB wrapper's per-overload texts: MATLAB-side guards, C++ unwrapping,
   call argument lists with re-inserted defaults, return wrapping, and whole gateway routines.
   Definitions only. *)
From Coq Require Import String Ascii List Bool Arith.
From Wrap Require Import Base.Str Base.ListX Syntax.Ast Syntax.Print Inst.Model Inst.Proj Matlab.Ids.
From Wrap Require gen.Tables.
Import ListNotations.
Open Scope string_scope.

Definition nl : string := String "010"%char "".

(* `name in tuple_of_strings` where name may be a Typename object (never equal to a str) *)
Definition nm_in (n : nm) (l : list string) : bool :=
  match n with NStr s => mem_str s l | NObj _ => false end.
Fixpoint assoc_str (k : string) (l : list (string * string)) : option string :=
  match l with [] => None | (a, b) :: r => if String.eqb a k then Some b else assoc_str k r end.
(* dict.get(name): a Typename key is unhashable -> TypeError, modelled by the marker *)
Definition dict_get (d : list (string * string)) (n : nm) : option string :=
  match n with NStr s => assoc_str s d | NObj _ => Some "<TypeError>" end.

Inductive fmode := FPlain | FCtor | FMethod.

(* mixins.py _format_type_name *)
Fixpoint fmt_tn (sep : string) (incl_ns : bool) (m : fmode) (t : typename) : string :=
  match t with
  | Typename ns n insts =>
    let prefix :=
        if incl_ns then
          String.concat "" (map (fun x => if andb (negb (nm_in n Tables.matlab_ignore_namespace)) (negb (String.eqb x ""))
                                          then x ++ sep else "") ns)
        else "" in
    let base := match m with
                | FCtor => match dict_get Tables.matlab_data_type n with Some v => v | None => nm_str n end
                | FMethod => match dict_get Tables.matlab_data_type_param n with Some v => v | None => nm_str n end
                | FPlain => nm_str n
                end in
    let tail :=
        if String.eqb sep "::" then
          match insts with
          | [] => ""
          | _ => "<" ++ join "," (map (fmt_tn "::" incl_ns m) insts) ++ ">"
          end
        else String.concat "" (map (fmt_tn sep false m) insts) in
    prefix ++ base ++ tail
  end.

Definition ty_name (t : ty) : nm := tn_name (ty_typename t).
Definition is_shared (t : ty) : bool := match ty_ptr t with PShared => true | _ => false end.
Definition is_raw (t : ty) : bool := match ty_ptr t with PRaw => true | _ => false end.
Definition is_refq (t : ty) : bool := match ty_ptr t with PRef => true | _ => false end.

(* CheckMixin *)
Definition can_be_pointer (t : ty) : bool :=
  andb (negb (nm_in (ty_name t) Tables.matlab_not_ptr_type))
       (andb (negb (nm_in (ty_name t) Tables.matlab_ignore_namespace))
             (negb (nm_in (ty_name t) ["string"]))).
Definition is_ref (t : ty) : bool :=
  andb (negb (nm_in (ty_name t) Tables.matlab_ignore_namespace))
       (andb (negb (nm_in (ty_name t) Tables.matlab_not_ptr_type)) (is_refq t)).

Definition is_class_enum (e : option ectx) (t : ty) : bool :=
  match e with Some x => nm_in (ty_name t) (ec_class_enums x) | None => false end.
Definition is_enum (e : option ectx) (t : ty) : bool :=
  match e with
  | Some x => orb (nm_in (ty_name t) (ec_class_enums x)) (nm_in (ty_name t) (ec_ns_enums x))
  | None => false
  end.

(* wrapper.py:344 _unwrap_argument -> (arg_type, unwrap) *)
Definition unwrap_argument (e : option ectx) (a_ty' : ty) (arg_id : nat) : string * string :=
  let tn := ty_typename a_ty' in
  let camel := fmt_tn "" true FPlain tn in
  let sepd := fmt_tn "::" true FPlain tn in
  let id := nat_dec arg_id in
  if is_enum e a_ty' then
    (tn_cpp tn, "unwrap_enum<" ++ tn_cpp tn ++ ">(in[" ++ id ++ "]);")
  else if is_ref a_ty' then
    (sepd ++ "&", "*unwrap_shared_ptr< " ++ sepd ++ " >(in[" ++ id ++ "], ""ptr_" ++ camel ++ """);")
  else if andb (is_raw a_ty') (negb (nm_in (ty_name a_ty') Tables.matlab_ignore_namespace)) then
    (sepd ++ "*", "unwrap_ptr< " ++ sepd ++ " >(in[" ++ id ++ "], ""ptr_" ++ camel ++ """);")
  else if andb (orb (is_shared a_ty') (can_be_pointer a_ty'))
               (negb (nm_in (ty_name a_ty') Tables.matlab_ignore_namespace)) then
    ("std::shared_ptr<" ++ sepd ++ ">", "unwrap_shared_ptr< " ++ sepd ++ " >(in[" ++ id ++ "], ""ptr_" ++ camel ++ """);")
  else
    (nm_str (ty_name a_ty'), "unwrap< " ++ nm_str (ty_name a_ty') ++ " >(in[" ++ id ++ "]);").

Fixpoint body_args_from (e : option ectx) (arg_id : nat) (args : list arg) : string :=
  match args with
  | [] => ""
  | a :: r =>
    let '(t, u) := unwrap_argument e (a_ty a) arg_id in
    "  " ++ t ++ " " ++ a_name a ++ " = " ++ u ++ nl ++ body_args_from e (S arg_id) r
  end.

(* wrapper.py:405-427: the C++ call argument list: explicit arguments by name (dereferenced where a
   shared pointer holds a by-value class), omitted defaults by their original text, in declared order *)
Definition call_param (e : option ectx) (explicit : list string) (a : arg) : string :=
  match a_default a with
  | Some d => if negb (mem_str (a_name a) explicit) then d else
                (if andb (negb (is_ref (a_ty a)))
                         (andb (orb (is_shared (a_ty a)) (orb (is_raw (a_ty a)) (can_be_pointer (a_ty a))))
                               (andb (negb (is_enum e (a_ty a)))
                                     (negb (nm_in (ty_name (a_ty a)) Tables.matlab_ignore_namespace))))
                 then (if orb (is_shared (a_ty a)) (is_raw (a_ty a)) then "" else "*") else "") ++ a_name a
  | None =>
    (if andb (negb (is_ref (a_ty a)))
             (andb (orb (is_shared (a_ty a)) (orb (is_raw (a_ty a)) (can_be_pointer (a_ty a))))
                   (andb (negb (is_enum e (a_ty a)))
                         (negb (nm_in (ty_name (a_ty a)) Tables.matlab_ignore_namespace))))
     then (if orb (is_shared (a_ty a)) (is_raw (a_ty a)) then "" else "*") else "") ++ a_name a
  end.
Definition call_params (e : option ectx) (explicit backup : list arg) : string :=
  join "," (map (call_param e (arg_names explicit)) backup).

(* wrapper.py:1225 wrap_collector_function_shared_return *)
Definition shared_return (tn : typename) (shared_obj : string) (id : nat) (new_line : bool) : string :=
  let name := fmt_tn "::" false FPlain tn in
  "  {" ++ nl ++ "  std::shared_ptr<" ++ name ++ "> shared(" ++ shared_obj ++ ");" ++ nl
  ++ "  out[" ++ nat_dec id ++ "] = wrap_shared_ptr(shared,""" ++ name ++ """);" ++ nl ++ "  }"
  ++ (if new_line then nl else "").

Definition is_optional (t : ty) : bool :=
  match t with
  | TTempl _ _ _ _ _ => String.eqb (take 13 (tn_cpp (ty_typename t))) "std::optional"
  | _ => false
  end.

(* wrapper.py:1273 _collector_return *)
Definition collector_return (e : option ectx) (obj : string) (t : ty) : string :=
  let tn := ty_typename t in
  if is_enum e t then
    let cname := match e with
                 | Some x => join "." (if is_class_enum e t then ec_class_path x else ec_ns_path x)
                 | None => ""
                 end in
    let cname' := if String.eqb cname "" then "" else cname ++ "." in
    "  out[0] = wrap_enum(" ++ obj ++ ",""" ++ cname' ++ nm_str (ty_name t) ++ """);"
  else if orb (is_shared t) (orb (is_raw t) (can_be_pointer t)) then
    let ign := nm_in (ty_name t) Tables.matlab_ignore_namespace in
    let part1 := if ign then shared_return tn obj 0 false else "" in
    let shared_obj :=
        if orb (is_shared t) (is_raw t) then obj ++ ",""" ++ fmt_tn "." true FPlain tn ++ """"
        else
          let '(obj', dot) :=
              if is_optional t then
                match t with
                | TTempl _ _ (p :: _) _ _ =>
                  ("*" ++ obj, join "." (tn_ns (ty_typename p)) ++ "." ++ nm_str (tn_name (ty_typename p)))
                | _ => ("*" ++ obj, "<IndexError>")
                end
              else (obj, fmt_tn "." true FPlain tn) in
          "std::make_shared<" ++ fmt_tn "::" true FPlain tn ++ ">(" ++ obj' ++ "),""" ++ dot ++ """" in
    part1 ++ (if ign then "" else "  out[0] = wrap_shared_ptr(" ++ shared_obj ++ ", false);")
  else
    "  out[0] = wrap< " ++ nm_str (ty_name t) ++ " >(" ++ obj ++ ");".

(* wrapper.py:1240 wrap_collector_function_return_types (pair components) *)
Definition pair_return (t : ty) (id : nat) : string :=
  let tn := ty_typename t in
  let value := if Nat.eqb id 0 then "first" else "second" in
  let new_line := if Nat.eqb id 0 then nl else "" in
  if orb (is_shared t) (orb (is_raw t) (can_be_pointer t)) then
    let so0 := "pairResult." ++ value in
    let so := if orb (is_shared t) (is_raw t) then so0
              else "std::make_shared<" ++ fmt_tn "::" true FPlain tn ++ ">(" ++ so0 ++ ")" in
    if nm_in (ty_name t) Tables.matlab_ignore_namespace
    then shared_return tn so id (Nat.eqb id 0)
    else "  out[" ++ nat_dec id ++ "] = wrap_shared_ptr(" ++ so ++ ",""" ++ fmt_tn "." true FPlain tn ++ """, false);" ++ new_line
  else
    "  out[" ++ nat_dec id ++ "] = wrap< " ++ fmt_tn "." true FPlain tn ++ " >(pairResult." ++ value ++ ");" ++ new_line.

(* wrapper.py:1340 wrap_collector_function_return, given the callee prefix and name *)
Definition function_return (e : option ectx) (obj_start callee : string) (r : ret) (explicit backup : list arg) : string :=
  let params := call_params e explicit backup in
  let is_void := match r with
                 | RSingle t => String.eqb (nm_str (ty_name t)) "void"
                 | RPair a _ => String.eqb (nm_str (ty_name a)) "void"
                 end in
  let obj := (if is_void then "  " else "") ++ obj_start ++ callee ++ "(" ++ params ++ ")" in
  if is_void then obj ++ ";"
  else match r with
       | RSingle t => collector_return e obj t
       | RPair a b => "  auto pairResult = " ++ obj ++ ";" ++ nl ++ pair_return a 0 ++ pair_return b 1
       end.

Definition routine_header (name : string) : string :=
  "void " ++ name ++ "(int nargout, mxArray *out[], int nargin, const mxArray *in[])" ++ nl.

(* the MATLAB-side guards *)
Definition size_checks (name : nm) (i : string) : string :=
  (if nm_in name ["Vector"] then " && size(varargin{" ++ i ++ "},2)==1" else "")
  ++ (if nm_in name ["Point2"] then " && size(varargin{" ++ i ++ "},1)==2" ++ " && size(varargin{" ++ i ++ "},2)==1" else "")
  ++ (if nm_in name ["Point3"] then " && size(varargin{" ++ i ++ "},1)==3" ++ " && size(varargin{" ++ i ++ "},2)==1" else "").

(* check_type of one argument: data_type_param, then data_type on the result, else the formatted name *)
Definition check_type (m : fmode) (t : ty) : string :=
  let name := ty_name t in
  match dict_get Tables.matlab_data_type_param name with
  | Some v => match assoc_str v Tables.matlab_data_type with Some w => w | None => v end
  | None => fmt_tn "." true m (ty_typename t)
  end.

Fixpoint var_args_guard (m : fmode) (i : nat) (args : list arg) : string :=
  match args with
  | [] => ""
  | a :: r =>
    (if nm_in (ty_name (a_ty a)) Tables.matlab_not_check_type then ""
     else " && isa(varargin{" ++ nat_dec i ++ "},'" ++ check_type m (a_ty a) ++ "')" ++ size_checks (ty_name (a_ty a)) (nat_dec i))
    ++ var_args_guard m (S i) r
  end.
(* methods / statics: _wrap_method_check_statement (without the trailing newline) *)
Definition method_guard (args : list arg) : string :=
  "if length(varargin) == " ++ nat_dec (List.length args) ++ var_args_guard FPlain 1 args.
(* ctors / functions: the count is printed by the caller; guards with is_constructor = True *)
Definition ctor_guard (args : list arg) : string :=
  "elseif nargin == " ++ nat_dec (List.length args) ++ var_args_guard FCtor 1 args.
Definition function_guard (first : bool) (args : list arg) : string :=
  (if first then "if" else "elseif") ++ " length(varargin) == "
  ++ match args with [] => "0" | _ => nat_dec (List.length args) ++ var_args_guard FCtor 1 args end.

Definition varargout_of (r : ret) (formatted : string) : string :=
  match r with
  | RSingle _ => if String.eqb formatted "void" then "" else "varargout{1} = "
  | RPair _ _ => "[ varargout{1} varargout{2} ] = "
  end.
Definition format_return_type (r : ret) : string :=
  match r with
  | RSingle t => fmt_tn "." true FPlain (ty_typename t)
  | RPair a b => "pair< " ++ fmt_tn "." true FPlain (ty_typename a) ++ ", " ++ fmt_tn "." true FPlain (ty_typename b) ++ " >"
  end.

(* ---------------- whole gateway routines (generate_collector_function) ---------------- *)
Definition base_frag (idx base : string) : string :=
  nl ++ "  typedef std::shared_ptr<" ++ base ++ "> SharedBase;" ++ nl
  ++ "  out[" ++ idx ++ "] = mxCreateNumericMatrix(1, 1, mxUINT32OR64_CLASS, mxREAL);" ++ nl
  ++ "  *reinterpret_cast<SharedBase**>(mxGetData(out[" ++ idx ++ "])) = new SharedBase(*self);" ++ nl.

Definition upcast_routine (name cpp : string) : string :=
  "void " ++ name ++ "(int nargout, mxArray *out[], int nargin, const mxArray *in[]) {" ++ nl
  ++ "  mexAtExit(&_deleteAllObjects);" ++ nl
  ++ "  typedef std::shared_ptr<" ++ cpp ++ "> Shared;" ++ nl
  ++ "  std::shared_ptr<void> *asVoid = *reinterpret_cast<std::shared_ptr<void>**> (mxGetData(in[0]));" ++ nl
  ++ "  out[0] = mxCreateNumericMatrix(1, 1, mxUINT32OR64_CLASS, mxREAL);" ++ nl
  ++ "  Shared *self = new Shared(std::static_pointer_cast<" ++ cpp ++ ">(*asVoid));" ++ nl
  ++ "  *reinterpret_cast<Shared**>(mxGetData(out[0])) = self;" ++ nl ++ "}" ++ nl ++ nl.

Definition ret_of (x : xinfo) : ret :=
  match x_ret x with Some r => r | None => RSingle (TPlain (Typename [] (NStr "void") []) false PNone true) end.

Definition slot_routine (boost : bool) (name : string) (s : slot) : string :=
  let x := s_x s in
  let cpp := x_cpp x in
  let cname := s_ns s ++ s_cls s in
  let n := nat_dec (List.length (s_args s)) in
  let shared_obj := "  auto obj = unwrap_shared_ptr<" ++ cpp ++ ">(in[0], ""ptr_" ++ cname ++ """);" ++ nl in
  routine_header name ++
  match s_role s with
  | RCollector =>
    "{" ++ nl ++ "  mexAtExit(&_deleteAllObjects);" ++ nl ++ "  typedef std::shared_ptr<" ++ cpp ++ "> Shared;" ++ nl ++ nl
    ++ "  Shared *self = *reinterpret_cast<Shared**> (mxGetData(in[0]));" ++ nl
    ++ "  collector_" ++ cname ++ ".insert(self);" ++ nl
    ++ match x_base x with Some b => base_frag "0" b | None => "" end
    ++ "}" ++ nl ++ nl
  | RCtor =>
    "{" ++ nl ++ "  mexAtExit(&_deleteAllObjects);" ++ nl ++ "  typedef std::shared_ptr<" ++ cpp ++ "> Shared;" ++ nl ++ nl
    ++ body_args_from (x_e x) 0 (s_args s)
    ++ "  Shared *self = new Shared(new " ++ cpp ++ "(" ++ call_params (x_e x) (s_args s) (s_backup s) ++ "));" ++ nl
    ++ "  collector_" ++ cname ++ ".insert(self);" ++ nl
    ++ "  out[0] = mxCreateNumericMatrix(1, 1, mxUINT32OR64_CLASS, mxREAL);" ++ nl
    ++ "  *reinterpret_cast<Shared**> (mxGetData(out[0])) = self;" ++ nl
    ++ match x_base x with Some b => base_frag "1" b | None => "" end
    ++ "}" ++ nl ++ nl
  | RDtor =>
    "{" ++ nl ++ "  typedef std::shared_ptr<" ++ cpp ++ "> Shared;" ++ nl
    ++ "  checkArguments(""delete_" ++ cname ++ """,nargout,nargin,1);" ++ nl
    ++ "  Shared *self = *reinterpret_cast<Shared**>(mxGetData(in[0]));" ++ nl
    ++ "  Collector_" ++ cname ++ "::iterator item;" ++ nl
    ++ "  item = collector_" ++ cname ++ ".find(self);" ++ nl
    ++ "  if(item != collector_" ++ cname ++ ".end()) {" ++ nl
    ++ "    collector_" ++ cname ++ ".erase(item);" ++ nl ++ "  }" ++ nl ++ "  delete self;" ++ nl
    ++ "}" ++ nl ++ nl
  | RMethod =>
    "{" ++ nl ++ "  checkArguments(""" ++ x_name x ++ """,nargout,nargin-1," ++ n ++ ");" ++ nl
    ++ shared_obj ++ body_args_from (x_e x) 1 (s_args s)
    ++ function_return (x_e x) "obj->" (x_callee x) (ret_of x) (s_args s) (s_backup s) ++ nl
    ++ "}" ++ nl ++ nl
  | RStatic =>
    "{" ++ nl ++ "  checkArguments(""" ++ x_name x ++ """,nargout,nargin," ++ n ++ ");" ++ nl
    ++ body_args_from (x_e x) 0 (s_args s)
    ++ function_return (x_e x) "" (x_callee x) (ret_of x) (s_args s) (s_backup s) ++ nl
    ++ "}" ++ nl ++ nl
  | RGetter =>
    match x_prop x with
    | Some v =>
      "{" ++ nl ++ "  checkArguments(""" ++ v_name v ++ """,nargout,nargin-1,0);" ++ nl ++ shared_obj
      ++ collector_return (x_e x) ("obj->" ++ v_name v) (v_ty v) ++ nl ++ "}" ++ nl ++ nl
    | None => ""
    end
  | RSetter =>
    match x_prop x with
    | Some v =>
      let '(t, u) := unwrap_argument (x_e x) (v_ty v) 1 in
      "{" ++ nl ++ "  checkArguments(""" ++ v_name v ++ """,nargout,nargin-1,1);" ++ nl ++ shared_obj
      ++ "  " ++ t ++ " " ++ v_name v ++ " = " ++ u ++ nl
      ++ "  obj->" ++ v_name v ++ " = "
      ++ (if andb (can_be_pointer (v_ty v)) (negb (is_enum (x_e x) (v_ty v))) then "*" else "") ++ v_name v ++ ";" ++ nl
      ++ "}" ++ nl ++ nl
    | None => ""
    end
  | RSerialize =>
    "{" ++ nl ++
    (if boost then
       "  typedef std::shared_ptr<" ++ cpp ++ "> Shared;" ++ nl
       ++ "  checkArguments(""string_serialize"",nargout,nargin-1,0);" ++ nl
       ++ "  Shared obj = unwrap_shared_ptr<" ++ cpp ++ ">(in[0], ""ptr_" ++ cname ++ """);" ++ nl
       ++ "  ostringstream out_archive_stream;" ++ nl
       ++ "  boost::archive::text_oarchive out_archive(out_archive_stream);" ++ nl
       ++ "  out_archive << *obj;" ++ nl
       ++ "  out[0] = wrap< string >(out_archive_stream.str());" ++ nl
     else "")
    ++ "}" ++ nl
  | RDeserialize =>
    "{" ++ nl ++
    (if boost then
       "  typedef std::shared_ptr<" ++ cpp ++ "> Shared;" ++ nl
       ++ "  checkArguments(""" ++ cname ++ ".string_deserialize"",nargout,nargin,1);" ++ nl
       ++ "  string serialized = unwrap< string >(in[0]);" ++ nl
       ++ "  istringstream in_archive_stream(serialized);" ++ nl
       ++ "  boost::archive::text_iarchive in_archive(in_archive_stream);" ++ nl
       ++ "  Shared output(new " ++ cpp ++ "());" ++ nl
       ++ "  in_archive >> *output;" ++ nl
       ++ "  out[0] = wrap_shared_ptr(output,""" ++ s_ns s ++ "." ++ s_cls s ++ """, false);" ++ nl
     else "")
    ++ "}" ++ nl
  | RFunction =>
    "{" ++ nl ++ "  checkArguments(""" ++ x_name x ++ """,nargout,nargin," ++ n ++ ");" ++ nl
    ++ body_args_from None 0 (s_args s)
    ++ function_return None "" (x_callee x) (ret_of x) (s_args s) (s_backup s) ++ nl
    ++ "}" ++ nl
  | RUpcast => ""
  end.

(* the MATLAB side of one call site: (guard line, call line), both stripped *)
Fixpoint varargin_list (i n : nat) : list string :=
  match n with 0 => [] | S n' => ("varargin{" ++ nat_dec i ++ "}") :: varargin_list (S i) n' end.

Definition m_site (module : string) (id : nat) (s : slot) : string * string :=
  let w := module ++ "_wrapper" in
  let x := s_x s in
  match s_role s with
  | RMethod =>
    (method_guard (s_args s),
     varargout_of (ret_of x) (format_return_type (ret_of x)) ++ w ++ "(" ++ nat_dec id ++ ", this, varargin{:});")
  | RStatic =>
    (method_guard (s_args s), "varargout{1} = " ++ w ++ "(" ++ nat_dec id ++ ", varargin{:});")
  | RCtor =>
    (ctor_guard (s_args s),
     (match x_base x with Some _ => "[ my_ptr, base_ptr ] = " | None => "my_ptr = " end)
     ++ w ++ "(" ++ nat_dec id ++ (match s_args s with [] => "" | _ => ", " end)
     ++ join ", " (varargin_list 1 (List.length (s_args s))) ++ ");")
  | RFunction =>
    (function_guard (x_first x) (s_args s),
     varargout_of (ret_of x) (format_return_type (ret_of x)) ++ w ++ "(" ++ nat_dec id ++ ", varargin{:});")
  | _ => ("", "")
  end.

(* S-expressions: the wire format between the Python harness and the model. *)
From Coq Require Import String Ascii List Bool Arith.
From Wrap Require Import Base.Str.
Import ListNotations.
Open Scope string_scope.

Inductive sexp : Type := Atom (s : string) | SList (l : list sexp).

(* ---- printer: atoms always quoted; escapes for quote, backslash, newline ---- *)
Fixpoint esc (s : string) : string :=
  match s with
  | EmptyString => EmptyString
  | String c s' =>
    if is c """"%char then String "\"%char (String """"%char (esc s'))
    else if is c "\"%char then String "\"%char (String "\"%char (esc s'))
    else if is c "010"%char then String "\"%char (String "n"%char (esc s'))
    else String c (esc s')
  end.

Fixpoint print (x : sexp) : string :=
  match x with
  | Atom s => """" ++ esc s ++ """"
  | SList l => "(" ++ String.concat " " (map print l) ++ ")"
  end.

(* ---- reader ---- *)
Inductive tok := TL | TR | TA (s : string).

Definition is_ws (c : ascii) : bool :=
  orb (is c " "%char) (orb (is c "010"%char) (orb (is c "009"%char) (is c "013"%char))).

(* quoted atom body: returns (atom, rest after closing quote) *)
Fixpoint read_quoted (s : string) (acc : string) : option (string * string) :=
  match s with
  | EmptyString => None
  | String c s' =>
    if is c """"%char then Some (rev_str acc, s')
    else if is c "\"%char then
      match s' with
      | String d s'' =>
        let d' := if is d "n"%char then "010"%char else d in
        read_quoted s'' (String d' acc)
      | EmptyString => None
      end
    else read_quoted s' (String c acc)
  end.

Fixpoint read_bare (s : string) (acc : string) : string * string :=
  match s with
  | EmptyString => (rev_str acc, EmptyString)
  | String c s' =>
    if orb (is_ws c) (orb (is c "("%char) (orb (is c ")"%char) (is c """"%char)))
    then (rev_str acc, s)
    else read_bare s' (String c acc)
  end.

Fixpoint tokenize (fuel : nat) (s : string) : option (list tok) :=
  match fuel with
  | 0 => None
  | S f =>
    match s with
    | EmptyString => Some []
    | String c s' =>
      if is_ws c then tokenize f s'
      else if is c "("%char then option_map (cons TL) (tokenize f s')
      else if is c ")"%char then option_map (cons TR) (tokenize f s')
      else if is c """"%char then
        match read_quoted s' EmptyString with
        | Some (a, rest) => option_map (cons (TA a)) (tokenize f rest)
        | None => None
        end
      else let '(a, rest) := read_bare s EmptyString in
           option_map (cons (TA a)) (tokenize f rest)
    end
  end.

(* stack-based parser: stack of partially built lists (reversed) *)
Fixpoint parse_toks (ts : list tok) (stack : list (list sexp)) : option sexp :=
  match ts with
  | [] => match stack with
          | [[x]] => Some x
          | _ => None
          end
  | TL :: r => parse_toks r ([] :: stack)
  | TR :: r => match stack with
               | top :: (nxt :: rest) => parse_toks r ((SList (rev top) :: nxt) :: rest)
               | _ => None
               end
  | TA a :: r => match stack with
                 | top :: rest => parse_toks r ((Atom a :: top) :: rest)
                 | [] => None
                 end
  end.

Definition read (s : string) : option sexp :=
  match tokenize (S (String.length s)) s with
  | Some ts => parse_toks ts [[]]
  | None => None
  end.

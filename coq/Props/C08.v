(* C08 - exactly the requested instantiations exist, in order, with stable names.
   Property theorems only; each closed by `exact`. *)
From Coq Require Import String Ascii List Bool Arith.
From Wrap Require Import Base.Str Base.ListX Syntax.Ast Syntax.Print Inst.Model Inst.ProductProofs Inst.ScopeProofs Inst.ClassProofs.
Import ListNotations.
Open Scope string_scope.
Open Scope list_scope.

(* (1) a template with enumerated lists yields exactly the Cartesian product of those lists ... *)
Theorem C08_product_exact : forall (ls : list (list typename)) (t : list typename),
  In t (cartesian ls) <-> Forall2 (fun (x : typename) (l : list typename) => In x l) t ls.
Proof. exact cartesian_In. Qed.
Print Assumptions C08_product_exact.

Theorem C08_product_count : forall ls : list (list typename), length (cartesian ls) = size ls.
Proof. exact cartesian_length. Qed.
Print Assumptions C08_product_count.

Theorem C08_product_once : forall ls : list (list typename), Forall (@NoDup typename) ls -> NoDup (cartesian ls).
Proof. exact cartesian_NoDup. Qed.
Print Assumptions C08_product_once.

(* ... in declaration order with the first parameter varying slowest: the i-th instantiation is the
   tuple of mixed-radix digits of i, for any number of parameters and any list lengths *)
Theorem C08_product_order : forall (d : typename) (ls : list (list typename)) (i : nat),
  i < size ls -> nth i (cartesian ls) [] = tuple_at d ls i.
Proof. exact cartesian_nth. Qed.
Print Assumptions C08_product_order.

(* (2) a template with neither list nor typedef yields nothing *)
Theorem C08_none : forall ls : list (list typename), In [] ls -> cartesian ls = [].
Proof. exact cartesian_none. Qed.
Print Assumptions C08_none.

(* (3) scope structure, for every scope the recursion visits: own declarations first (templates
   expanded in product order, non-templates once, relative order kept, nested namespaces in place),
   then one instantiation per typedef carrying the typedef's name *)
Theorem C08_scope : forall q top content path home k a b,
  inst_content q top path home k content = Ok (a, b) ->
  map item_key a = flat_map (main_keys q) content /\
  Forall2 (fun n i => n <> "" -> typedef_item_ok n i) (typedef_names content) b.
Proof. exact inst_content_shape. Qed.
Print Assumptions C08_scope.

Theorem C08_nested : forall q top path home k n c,
  inst_decl q top path home k (DNamespace n c)
  = rbind (inst_content q top (path ++ [k]) (home ++ [n]) 0 c)
          (fun r => Ok ([INamespace n (fst r ++ snd r)], [])).
Proof. exact inst_decl_namespace. Qed.
Print Assumptions C08_nested.

Theorem C08_module : forall q m items,
  instantiate q m = Ok items ->
  exists a b, items = a ++ b /\
              map item_key a = flat_map (main_keys q) m /\
              Forall2 (fun n i => n <> "" -> typedef_item_ok n i) (typedef_names m) b.
Proof. exact instantiate_shape. Qed.
Print Assumptions C08_module.

(* (4) naming.  Full statement: the name is the template's name followed by the capitalised
   argument names. *)
Definition C08_name_full (q : quirks) : Prop :=
  forall orig insts, inst_name q orig insts = spec_name orig insts.

(* refuted by the faithful model of the unchanged tree: T = {dd} gives "CDD" *)
Theorem C08_name_refuted : forall q, q_cap_all q = true -> ~ C08_name_full q.
Proof.
  intros q Hq H. specialize (H "C" [Typename [] (NStr "dd") []]).
  unfold inst_name in H. rewrite Hq in H. vm_compute in H. discriminate H.
Qed.
Print Assumptions C08_name_refuted.

(* holds whenever the first letter of each argument name is already upper case or does not
   recur; holds outright once the quirk is repaired *)
Theorem C08_name_partial : forall q orig insts,
  (q_cap_all q = true -> forallb (fun i => name_ok (tn_iname i)) insts = true) ->
  inst_name q orig insts = spec_name orig insts.
Proof. exact inst_name_spec. Qed.
Print Assumptions C08_name_partial.

Example C08_name_nonvacuous :
  forallb (fun i => name_ok (tn_iname i)) [Typename ["gtsam"] (NStr "Pose3") []; Typename [] (NStr "double") []] = true.
Proof. vm_compute. reflexivity. Qed.

(* (5) each instantiation refers in C++ to Name<args> within the template's namespace *)
Theorem C08_cpp_name : forall q home c ci nn,
  tn_cpp (cls_cpp home c ci) = iclass_cpp (inst_class q home c ci nn).
Proof. exact inst_class_cpp. Qed.
Print Assumptions C08_cpp_name.

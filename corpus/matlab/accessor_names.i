// property routines of classes / properties whose names contain "_get_" or "_set_" (finding C06-accessor-chosen-by-substring, fixed)
class is_set_up { is_set_up(); char a; int on_get_ready; };
namespace robot_nav { class Wheel_set_Odometry { Wheel_set_Odometry(); double radius; }; }

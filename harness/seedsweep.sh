#!/bin/bash
# usage: seedsweep.sh "<seeds>" "<props>"   -> lines "prop seed rc nviol"
cd "$(dirname "$0")/.."
for sd in $1; do for p in $2; do
  out=$(VERIF_SEED=$sd ./check $p --tier quick 2>&1)
  rc=$?
  n=$(echo "$out" | grep -c '^VIOLATION')
  echo "$p seed=$sd rc=$rc violations=$n"
  if [ "$n" != "0" ]; then echo "$out" | grep '^VIOLATION' | head -2; fi
done; done

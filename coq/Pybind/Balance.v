(* C09: the generated statements are bracket- and quote-balanced (no unbalanced or truncated
   construct), given balanced user-supplied pieces.  A quote-aware bracket scanner over ( [ {. *)
From Coq Require Import String Ascii List Bool Arith Lia.
From Wrap Require Import Base.Str Base.StrLemmas Base.ListX Syntax.Ast Pybind.Items Pybind.Gen Pybind.Render.
Import ListNotations.
Open Scope string_scope.

Inductive bmode := Code | InStr (esc : bool) | InChr (esc : bool).
Definition bstate := (list ascii * bmode)%type.

Definition closer (o : ascii) : ascii :=
  if is o "("%char then ")"%char else if is o "["%char then "]"%char else "}"%char.

Definition step (st : bstate) (c : ascii) : option bstate :=
  let '(stack, m) := st in
  match m with
  | InStr true => Some (stack, InStr false)
  | InStr false => if is c "\"%char then Some (stack, InStr true)
                   else if is c """"%char then Some (stack, Code) else Some st
  | InChr true => Some (stack, InChr false)
  | InChr false => if is c "\"%char then Some (stack, InChr true)
                   else if is c "'"%char then Some (stack, Code) else Some st
  | Code =>
    if is c """"%char then Some (stack, InStr false)
    else if is c "'"%char then Some (stack, InChr false)
    else if orb (is c "("%char) (orb (is c "["%char) (is c "{"%char)) then Some (c :: stack, Code)
    else if orb (is c ")"%char) (orb (is c "]"%char) (is c "}"%char)) then
      match stack with
      | o :: rest => if is (closer o) c then Some (rest, Code) else None
      | [] => None
      end
    else Some st
  end.

Fixpoint scan (s : string) (st : bstate) : option bstate :=
  match s with
  | EmptyString => Some st
  | String c r => match step st c with Some st' => scan r st' | None => None end
  end.

Lemma scan_app : forall a b st, scan (a ++ b) st = match scan a st with Some st' => scan b st' | None => None end.
Proof.
  induction a as [|c a IH]; intros b st; cbn [append scan]; [reflexivity|].
  destruct (step st c); [apply IH | reflexivity].
Qed.

(* a piece of code text that leaves any state in Code mode as it found it *)
Definition neutral (s : string) : Prop := forall stack, scan s (stack, Code) = Some (stack, Code).
(* a piece of text inside a string literal that stays inside it *)
Definition str_neutral (s : string) : Prop := forall stack, scan s (stack, InStr false) = Some (stack, InStr false).

Lemma neutral_app : forall a b, neutral a -> neutral b -> neutral (a ++ b).
Proof. intros a b Ha Hb stack. rewrite scan_app, Ha. apply Hb. Qed.

Lemma neutral_empty : neutral "".
Proof. intros stack. reflexivity. Qed.

Lemma neutral_concat : forall l, Forall neutral l -> neutral (String.concat "" l).
Proof.
  intros l H. induction H as [|x l Hx Hl IH]; [apply neutral_empty|].
  destruct l as [|y l'].
  - cbn [String.concat]. exact Hx.
  - change (String.concat "" (x :: y :: l')) with (x ++ "" ++ String.concat "" (y :: l')).
    apply neutral_app; [exact Hx|]. cbn [append]. exact IH.
Qed.

(* characters that cannot disturb the scanner in Code mode / inside a string *)
Definition code_char (c : ascii) : bool :=
  negb (orb (is c """"%char) (orb (is c "'"%char) (orb (is c "("%char) (orb (is c "["%char) (orb (is c "{"%char)
       (orb (is c ")"%char) (orb (is c "]"%char) (is c "}"%char)))))))).
Fixpoint all_chars (f : ascii -> bool) (s : string) : bool :=
  match s with EmptyString => true | String c r => andb (f c) (all_chars f r) end.
Definition plain_code (s : string) : bool := all_chars code_char s.
Definition str_char (c : ascii) : bool := negb (orb (is c """"%char) (is c "\"%char)).
Definition plain_str (s : string) : bool := all_chars str_char s.

Lemma plain_code_neutral : forall s, plain_code s = true -> neutral s.
Proof.
  induction s as [|c r IH]; intros H stack; [reflexivity|].
  cbn [plain_code all_chars] in H. apply andb_true_iff in H. destruct H as [Hc Hr].
  unfold code_char in Hc. apply negb_true_iff in Hc.
  repeat (apply orb_false_iff in Hc; let H1 := fresh "Hc" in destruct Hc as [H1 Hc]).
  cbn [scan step]. rewrite Hc0, Hc1, Hc2, Hc3, Hc4, Hc5, Hc6, Hc. cbn [orb]. apply IH. exact Hr.
Qed.

Lemma plain_str_neutral : forall s, plain_str s = true -> str_neutral s.
Proof.
  induction s as [|c r IH]; intros H stack; [reflexivity|].
  cbn [plain_str all_chars] in H. apply andb_true_iff in H. destruct H as [Hc Hr].
  unfold str_char in Hc. apply negb_true_iff in Hc. apply orb_false_iff in Hc. destruct Hc as [Hq Hb].
  cbn [scan step]. rewrite Hb, Hq. apply IH. exact Hr.
Qed.

(* a quoted piece: "..." around string-neutral text is code-neutral *)
Lemma quoted_neutral : forall s, str_neutral s -> neutral ("""" ++ s ++ """").
Proof.
  intros s Hs stack. cbn [append scan step]. 
  change (is """"%char """"%char) with true. cbn iota.
  rewrite scan_app, Hs. reflexivity.
Qed.

(* wrapping in a bracket pair *)
Lemma paren_neutral : forall s, neutral s -> neutral ("(" ++ s ++ ")").
Proof.
  intros s Hs stack. cbn [append scan step]. vm_compute (is "("%char """"%char).
  change (scan (s ++ ")") ("("%char :: stack, Code) = Some (stack, Code)).
  rewrite scan_app, Hs. reflexivity.
Qed.

(* ---- stack extension: a piece balanced on the empty stack is neutral on every stack ---- *)
Lemma step_ext : forall a m c a' m' b, step (a, m) c = Some (a', m') -> step ((a ++ b)%list, m) c = Some ((a' ++ b)%list, m').
Proof.
  intros a m c a' m' b H. destruct m as [|e|e]; cbn [step] in *.
  - destruct (is c """"%char); [inversion H; reflexivity|].
    destruct (is c "'"%char); [inversion H; reflexivity|].
    destruct (orb (is c "("%char) (orb (is c "["%char) (is c "{"%char))); [inversion H; reflexivity|].
    destruct (orb (is c ")"%char) (orb (is c "]"%char) (is c "}"%char))).
    + destruct a as [|o rest]; [discriminate|]. cbn [app].
      destruct (is (closer o) c); [inversion H; reflexivity | discriminate].
    + inversion H; reflexivity.
  - destruct e; [inversion H; reflexivity|].
    destruct (is c "\"%char); [inversion H; reflexivity|].
    destruct (is c """"%char); inversion H; reflexivity.
  - destruct e; [inversion H; reflexivity|].
    destruct (is c "\"%char); [inversion H; reflexivity|].
    destruct (is c "'"%char); inversion H; reflexivity.
Qed.

Lemma scan_ext : forall s a m a' m' b, scan s (a, m) = Some (a', m') -> scan s ((a ++ b)%list, m) = Some ((a' ++ b)%list, m').
Proof.
  induction s as [|c r IH]; intros a m a' m' b H; cbn [scan] in *.
  - inversion H. reflexivity.
  - destruct (step (a, m) c) as [[a1 m1]|] eqn:E; [|discriminate].
    rewrite (step_ext _ _ _ _ _ b E). apply IH. exact H.
Qed.

Definition bal_b (s : string) : bool :=
  match scan s ([], Code) with Some ([], Code) => true | _ => false end.
Definition strbal_b (s : string) : bool :=
  match scan s ([], InStr false) with Some ([], InStr false) => true | _ => false end.

Lemma bal_neutral : forall s, bal_b s = true -> neutral s.
Proof.
  intros s H stack. unfold bal_b in H.
  destruct (scan s ([], Code)) as [[a m]|] eqn:E; [|discriminate].
  destruct a; [|discriminate]. destruct m; try discriminate.
  apply (scan_ext s [] Code [] Code stack E).
Qed.
Lemma strbal_neutral : forall s, strbal_b s = true -> str_neutral s.
Proof.
  intros s H stack. unfold strbal_b in H.
  destruct (scan s ([], InStr false)) as [[a m]|] eqn:E; [|discriminate].
  destruct a; [|discriminate]. destruct m as [|e|e]; try discriminate. destruct e; [discriminate|].
  apply (scan_ext s [] (InStr false) [] (InStr false) stack E).
Qed.

(* join of neutral pieces with a plain separator *)
Lemma neutral_join : forall sep l, neutral sep -> Forall neutral l -> neutral (join sep l).
Proof.
  intros sep l Hs H. unfold join. induction H as [|x l Hx Hl IH]; [apply neutral_empty|].
  destruct l as [|y l'].
  - cbn [String.concat]. exact Hx.
  - change (String.concat sep (x :: y :: l')) with (x ++ sep ++ String.concat sep (y :: l')).
    apply neutral_app; [exact Hx|]. apply neutral_app; [exact Hs | exact IH].
Qed.

Ltac plain := apply plain_code_neutral; vm_compute; reflexivity.

(* ---------------- well-formed records ---------------- *)
Definition wf_pyarg (a : pyarg) : bool :=
  andb (plain_str (fst a)) (match snd a with Some d => bal_b d | None => true end).
Definition wf_lparam (p : lparam) : bool := andb (plain_code (fst p)) (plain_code (snd p)).

Definition wf_member (m : member) : bool :=
  match m with
  | MInit types pyargs => andb (forallb plain_code types) (forallb wf_pyarg pyargs)
  | MDef _ py self params _ caller callee call_args pyargs doc redirect =>
    andb (negb redirect)
    (andb (plain_str py)
    (andb (match self with Some s => plain_code s | None => true end)
    (andb (forallb wf_lparam params)
    (andb (plain_code caller) (andb (plain_code callee)
    (andb (forallb plain_code call_args)
    (andb (forallb wf_pyarg pyargs)
          (match doc with Some d => strbal_b d | None => true end))))))))
  | MRepr cls params name call_args pyargs =>
    andb (plain_code cls) (andb (forallb wf_lparam params) (andb (plain_code name)
         (andb (forallb plain_code call_args) (forallb wf_pyarg pyargs))))
  | MSerialize cls => plain_code cls
  | MDunder py cls params body pyargs =>
    andb (plain_str py) (andb (plain_code cls) (andb (forallb wf_lparam params)
         (andb (bal_b body) (forallb wf_pyarg pyargs))))
  | MProp _ name cls => andb (plain_str name) (andb (plain_code name) (plain_code cls))
  | MOp (OpUnary s) _ => plain_code s
  | MOp (OpBinary s) _ => plain_code s
  | MOp _ cls => plain_code cls
  end.

(* ---------------- texts as literal pieces with holes ---------------- *)
Inductive piece := PLit (s : string) | PCode (s : string) | PStr (s : string).
Definition ptext (p : piece) : string := match p with PLit s => s | PCode s => s | PStr s => s end.
Fixpoint flatten (ps : list piece) : string :=
  match ps with [] => "" | p :: r => ptext p ++ flatten r end.
Definition hole_ok (p : piece) : Prop :=
  match p with PLit _ => True | PCode s => neutral s | PStr s => str_neutral s end.
(* literals are scanned; a code hole must be met in Code mode, a string hole inside a string *)
Fixpoint pscan (ps : list piece) (st : bstate) : option bstate :=
  match ps with
  | [] => Some st
  | PLit s :: r => match scan s st with Some st' => pscan r st' | None => None end
  | PCode _ :: r => match st with (_, Code) => pscan r st | _ => None end
  | PStr _ :: r => match st with (_, InStr false) => pscan r st | _ => None end
  end.

Lemma pscan_sound : forall ps, Forall hole_ok ps ->
  forall st st', pscan ps st = Some st' -> scan (flatten ps) st = Some st'.
Proof.
  intros ps H. induction H as [|p r Hp Hr IH]; intros st st' E; cbn [flatten pscan] in *.
  - exact E.
  - rewrite scan_app. destruct p as [s|s|s]; cbn [ptext].
    + destruct (scan s st) as [st1|]; [apply IH; exact E | discriminate].
    + destruct st as [stack m]. destruct m; try discriminate. cbn [hole_ok] in Hp. rewrite Hp. apply IH. exact E.
    + destruct st as [stack m]. destruct m as [|e|e]; try discriminate. destruct e; [discriminate|].
      cbn [hole_ok] in Hp. rewrite Hp. apply IH. exact E.
Qed.

Lemma neutral_pieces : forall s ps, s = flatten ps -> Forall hole_ok ps ->
  (forall stack, pscan ps (stack, Code) = Some (stack, Code)) -> neutral s.
Proof. intros s ps E H P stack. subst s. apply pscan_sound; [exact H | apply P]. Qed.

Ltac holes := repeat (constructor; cbn [hole_ok]; try exact I; try assumption).

(* ---------------- the renderers ---------------- *)
Lemma r_pyarg_neutral : forall a, wf_pyarg a = true -> neutral (r_pyarg a).
Proof.
  intros [n d] H. unfold wf_pyarg in H. cbn [fst snd] in H. apply andb_true_iff in H. destruct H as [Hn Hd].
  apply plain_str_neutral in Hn.
  unfold r_pyarg. cbn [fst snd]. destruct d as [d|].
  - apply bal_neutral in Hd.
    apply (neutral_pieces _ [PLit "py::arg("""; PStr n; PLit """)"; PLit " = "; PCode d]).
    + cbn [flatten ptext]. rewrite ?append_empty_r. reflexivity.
    + holes.
    + intros stack. reflexivity.
  - apply (neutral_pieces _ [PLit "py::arg("""; PStr n; PLit """)"]).
    + cbn [flatten ptext]. rewrite ?append_empty_r. reflexivity.
    + holes.
    + intros stack. reflexivity.
Qed.

Lemma r_pyargs_neutral : forall l, forallb wf_pyarg l = true -> neutral (r_pyargs l).
Proof.
  intros l H. unfold r_pyargs. destruct l as [|a l]; [apply neutral_empty|].
  apply neutral_app; [plain|]. apply neutral_join; [plain|].
  remember (a :: l) as l'. clear Heql'. induction l' as [|x r IH]; [constructor|].
  cbn [forallb] in H. apply andb_true_iff in H. destruct H as [Hx Hr].
  cbn [map]. constructor; [apply r_pyarg_neutral; exact Hx | apply IH; exact Hr].
Qed.

Lemma r_sig_neutral : forall l, forallb wf_lparam l = true -> neutral (r_sig l).
Proof.
  intros l H. unfold r_sig. apply neutral_join; [plain|].
  induction l as [|[t n] r IH]; [constructor|].
  cbn [forallb] in H. apply andb_true_iff in H. destruct H as [Hx Hr].
  unfold wf_lparam in Hx. cbn [fst snd] in Hx. apply andb_true_iff in Hx. destruct Hx as [Ht Hn].
  cbn [map fst snd]. constructor; [|apply IH; exact Hr].
  apply neutral_app; [apply plain_code_neutral; exact Ht|].
  apply neutral_app; [plain | apply plain_code_neutral; exact Hn].
Qed.

Lemma join_plain_neutral : forall sep l, neutral sep -> forallb plain_code l = true -> neutral (join sep l).
Proof.
  intros sep l Hs H. apply neutral_join; [exact Hs|].
  induction l as [|x r IH]; [constructor|]. cbn [forallb] in H. apply andb_true_iff in H. destruct H as [Hx Hr].
  constructor; [apply plain_code_neutral; exact Hx | apply IH; exact Hr].
Qed.

Lemma indent8_neutral : neutral indent8.
Proof. plain. Qed.

Theorem r_member_neutral : forall m, wf_member m = true -> neutral (r_member indent8 "" m).
Proof.
  intros m H. destruct m as [types pyargs | static py self params returns caller callee call_args pyargs doc redirect
                             | cls params name call_args pyargs | cls | py cls params body pyargs
                             | ro name cls | k cls]; cbn [wf_member] in H.
  - (* init *)
    apply andb_true_iff in H. destruct H as [Ht Hp].
    pose proof (join_plain_neutral ", " types ltac:(plain) Ht) as Htn.
    pose proof (r_pyargs_neutral _ Hp) as Hpn.
    cbn [r_member].
    apply (neutral_pieces _ [PCode indent8; PLit ".def(py::init<"; PCode (join ", " types); PLit ">()"; PCode (r_pyargs pyargs); PLit ")"]).
    + cbn [flatten ptext]. rewrite ?append_empty_r. reflexivity.
    + holes; try apply indent8_neutral.
    + intros stack. reflexivity.
  - (* def *)
    repeat (apply andb_true_iff in H; let H1 := fresh "W" in destruct H as [H1 H]).
    apply negb_true_iff in W. subst redirect.
    apply plain_str_neutral in W0.
    pose proof (r_sig_neutral _ W2) as Hsig.
    apply plain_code_neutral in W3. apply plain_code_neutral in W4.
    pose proof (join_plain_neutral ", " call_args ltac:(plain) W5) as Hcall.
    pose proof (r_pyargs_neutral _ W6) as Hpy.
    cbn [r_member].
    set (selfp := match self with Some cls => cls ++ "* self" | None => "" end).
    assert (Hself : neutral selfp).
    { unfold selfp. destruct self as [cls|]; [|apply neutral_empty].
      apply neutral_app; [apply plain_code_neutral; exact W1 | plain]. }
    set (comma := match self, call_args with Some _, _ :: _ => ", " | _, _ => "" end).
    assert (Hcomma : neutral comma).
    { unfold comma. destruct self; [destruct call_args|]; first [apply neutral_empty | plain]. }
    set (retp := if returns then "return" else "").
    assert (Hret : neutral retp) by (unfold retp; destruct returns; first [apply neutral_empty | plain]).
    set (defp := if static then "def_static" else "def").
    assert (Hdef : neutral defp) by (unfold defp; destruct static; plain).
    destruct doc as [d|].
    + apply strbal_neutral in H.
      apply (neutral_pieces _ [PCode indent8; PLit "."; PCode defp; PLit "("""; PStr py; PLit """,";
                               PLit "[]("; PCode selfp; PCode comma; PCode (r_sig params); PLit "){";
                               PCode retp; PLit " "; PCode caller; PCode callee; PLit "("; PCode (join ", " call_args);
                               PLit ");"; PLit "}"; PCode (r_pyargs pyargs); PLit ", """; PStr d; PLit """"; PLit ")"]).
      * cbn [flatten ptext]. rewrite ?append_empty_r. rewrite ?append_assoc. reflexivity.
      * holes; try apply indent8_neutral.
      * intros stack. reflexivity.
    + apply (neutral_pieces _ [PCode indent8; PLit "."; PCode defp; PLit "("""; PStr py; PLit """,";
                               PLit "[]("; PCode selfp; PCode comma; PCode (r_sig params); PLit "){";
                               PCode retp; PLit " "; PCode caller; PCode callee; PLit "("; PCode (join ", " call_args);
                               PLit ");"; PLit "}"; PCode (r_pyargs pyargs); PLit ")"]).
      * cbn [flatten ptext]. rewrite ?append_empty_r. rewrite ?append_assoc. reflexivity.
      * holes; try apply indent8_neutral.
      * intros stack. reflexivity.
  - (* repr *)
    repeat (apply andb_true_iff in H; let H1 := fresh "W" in destruct H as [H1 H]).
    apply plain_code_neutral in W. pose proof (r_sig_neutral _ W0) as Hsig. apply plain_code_neutral in W1.
    pose proof (join_plain_neutral ", " call_args ltac:(plain) W2) as Hcall.
    pose proof (r_pyargs_neutral _ H) as Hpy.
    cbn [r_member].
    set (comma := match call_args with [] => "" | _ => ", " end).
    assert (Hcomma : neutral comma) by (unfold comma; destruct call_args; first [apply neutral_empty | plain]).
    apply (neutral_pieces _ [PCode indent8; PLit (".def(""__repr__""," ++ nl ++ "                    [](const ");
                             PCode cls; PLit "& self"; PCode comma; PCode (r_sig params);
                             PLit ("){" ++ nl ++ "                        gtsam::RedirectCout redirect;" ++ nl ++ "                        self.");
                             PCode name; PLit "("; PCode (join ", " call_args);
                             PLit (");" ++ nl ++ "                        return redirect.str();" ++ nl ++ "                    }");
                             PCode (r_pyargs pyargs); PLit ")"]).
    + cbn [flatten ptext]. rewrite ?append_empty_r. rewrite ?append_assoc. reflexivity.
    + holes; try apply indent8_neutral.
    + intros stack. reflexivity.
  - (* serialize *)
    apply plain_code_neutral in H. cbn [r_member]. unfold r_serialize.
    apply (neutral_pieces _ [PCode indent8; PLit ".def(""serialize"", []("; PCode cls; PLit "* self){ return gtsam::serialize(*self); })";
                             PCode indent8; PLit ".def(""deserialize"", []("; PCode cls;
                             PLit "* self, string serialized){ gtsam::deserialize(serialized, *self); }, py::arg(""serialized""))";
                             PCode indent8; PLit ".def(py::pickle("; PCode indent8; PLit "    [](const "; PCode cls;
                             PLit " &a){ /* __getstate__: Returns a string that encodes the state of the object */ return py::make_tuple(gtsam::serialize(a)); },";
                             PCode indent8; PLit "    [](py::tuple t){ /* __setstate__ */ "; PCode cls;
                             PLit " obj; gtsam::deserialize(t[0].cast<std::string>(), obj); return obj; }))"]).
    + cbn [flatten ptext]. rewrite ?append_empty_r. rewrite ?append_assoc. reflexivity.
    + holes; try apply indent8_neutral.
    + intros stack. reflexivity.
  - (* dunder *)
    repeat (apply andb_true_iff in H; let H1 := fresh "W" in destruct H as [H1 H]).
    apply plain_str_neutral in W. apply plain_code_neutral in W0. pose proof (r_sig_neutral _ W1) as Hsig.
    apply bal_neutral in W2. pose proof (r_pyargs_neutral _ H) as Hpy.
    cbn [r_member].
    set (comma := match params with [] => "" | _ => ", " end).
    assert (Hcomma : neutral comma) by (unfold comma; destruct params; first [apply neutral_empty | plain]).
    apply (neutral_pieces _ [PCode indent8; PLit ".def(""__"; PStr py; PLit "__"",[]("; PCode cls; PLit "* self";
                             PCode comma; PCode (r_sig params); PLit "){"; PCode body; PLit "}"; PCode (r_pyargs pyargs); PLit ")"]).
    + cbn [flatten ptext]. rewrite ?append_empty_r. rewrite ?append_assoc. reflexivity.
    + holes; try apply indent8_neutral.
    + intros stack. reflexivity.
  - (* property *)
    repeat (apply andb_true_iff in H; let H1 := fresh "W" in destruct H as [H1 H]).
    apply plain_str_neutral in W. apply plain_code_neutral in W0. apply plain_code_neutral in H.
    cbn [r_member].
    set (kind := if ro then "readonly" else "readwrite").
    assert (Hk : neutral kind) by (unfold kind; destruct ro; plain).
    apply (neutral_pieces _ [PCode indent8; PLit ".def_"; PCode kind; PLit "("""; PStr name; PLit """, &"; PCode cls; PLit "::"; PCode name; PLit ")"]).
    + cbn [flatten ptext]. rewrite ?append_empty_r. rewrite ?append_assoc. reflexivity.
    + holes; try apply indent8_neutral.
    + intros stack. reflexivity.
  - (* operators *)
    destruct k as [| |s|s]; apply plain_code_neutral in H; cbn [r_member].
    + apply (neutral_pieces _ [PCode indent8; PLit ".def(""__getitem__"", &"; PCode cls; PLit "::operator[])"]);
        [cbn [flatten ptext]; rewrite ?append_empty_r; reflexivity | holes; try apply indent8_neutral | intros stack; reflexivity].
    + apply (neutral_pieces _ [PCode indent8; PLit ".def(""__call__"", &"; PCode cls; PLit "::operator())"]);
        [cbn [flatten ptext]; rewrite ?append_empty_r; reflexivity | holes; try apply indent8_neutral | intros stack; reflexivity].
    + apply (neutral_pieces _ [PCode indent8; PLit ".def("; PCode s; PLit "py::self)"]);
        [cbn [flatten ptext]; rewrite ?append_empty_r; reflexivity | holes; try apply indent8_neutral | intros stack; reflexivity].
    + apply (neutral_pieces _ [PCode indent8; PLit ".def(py::self "; PCode s; PLit " py::self)"]);
        [cbn [flatten ptext]; rewrite ?append_empty_r; reflexivity | holes; try apply indent8_neutral | intros stack; reflexivity].
Qed.

Definition wf_enum (e : benum) : bool :=
  andb (plain_code (be_module e)) (andb (plain_code (be_cpp e)) (andb (plain_str (be_name e))
       (forallb (fun v => andb (plain_str v) (plain_code v)) (be_values e)))).

Definition wf_item (i : bitem) : bool :=
  match i with
  | BSub var parent name => andb (plain_code var) (andb (plain_code parent) (plain_str name))
  | BClass mv cpp py parent instance members =>
    andb (plain_code mv) (andb (plain_code cpp) (andb (plain_str py)
    (andb (match parent with Some p => plain_code p | None => true end)
    (andb (match instance with Some p => plain_code p | None => true end)
          (forallb wf_member members)))))
  | BClassEnum e => wf_enum e
  | BEnum e => wf_enum e
  | BDecl mv cpp py => andb (plain_code mv) (andb (plain_code cpp) (plain_str py))
  | BAttr mv name ns value => andb (plain_code mv) (andb (plain_str name) (andb (plain_code ns) (bal_b value)))
  | BFun mv py params _ caller callee call_args pyargs =>
    andb (plain_code mv) (andb (plain_str py) (andb (forallb wf_lparam params)
    (andb (plain_code caller) (andb (plain_code callee)
    (andb (forallb plain_code call_args) (forallb wf_pyarg pyargs))))))
  end.

Lemma r_enum_neutral : forall e, wf_enum e = true -> neutral (r_enum "    " e).
Proof.
  intros e H. unfold wf_enum in H.
  repeat (apply andb_true_iff in H; let H1 := fresh "W" in destruct H as [H1 H]).
  apply plain_code_neutral in W. pose proof (plain_code_neutral _ W0) as Hcpp. apply plain_str_neutral in W1.
  unfold r_enum.
  assert (Hvals : neutral (String.concat "" (map (fun v => nl ++ "    " ++ "    .value(""" ++ v ++ """, " ++ be_cpp e ++ "::" ++ v ++ ")") (be_values e)))).
  { apply neutral_concat. induction (be_values e) as [|v r IH]; [constructor|].
    cbn [forallb] in H. apply andb_true_iff in H. destruct H as [Hv Hr]. apply andb_true_iff in Hv. destruct Hv as [Hs Hc].
    apply plain_str_neutral in Hs. apply plain_code_neutral in Hc.
    cbn [map]. constructor; [|apply IH; exact Hr].
    apply (neutral_pieces _ [PLit (nl ++ "    " ++ "    .value("""); PStr v; PLit """, "; PCode (be_cpp e); PLit "::"; PCode v; PLit ")"]).
    - cbn [flatten ptext]. rewrite ?append_empty_r. rewrite ?append_assoc. reflexivity.
    - holes.
    - intros stack. reflexivity. }
  apply (neutral_pieces _ [PLit "    "; PLit "py::enum_<"; PCode (be_cpp e); PLit ">("; PCode (be_module e); PLit ", """; PStr (be_name e);
                           PLit """, py::arithmetic())"; PCode (String.concat "" (map (fun v => nl ++ "    " ++ "    .value(""" ++ v ++ """, " ++ be_cpp e ++ "::" ++ v ++ ")") (be_values e)));
                           PLit (";" ++ nl ++ nl)]).
  - cbn [flatten ptext]. rewrite ?append_empty_r. rewrite ?append_assoc. reflexivity.
  - holes.
  - intros stack. reflexivity.
Qed.

Theorem r_item_neutral : forall i, wf_item i = true -> neutral (r_item i).
Proof.
  intros i H. destruct i as [var parent name | mv cpp py parent instance members | e | mv cpp py | e
                             | mv name ns value | mv py params returns caller callee call_args pyargs];
    cbn [wf_item] in H.
  - repeat (apply andb_true_iff in H; let H1 := fresh "W" in destruct H as [H1 H]).
    apply plain_code_neutral in W. apply plain_code_neutral in W0. apply plain_str_neutral in H.
    cbn [r_item].
    apply (neutral_pieces _ [PLit "    pybind11::module "; PCode var; PLit " = "; PCode parent; PLit ".def_submodule(""";
                             PStr name; PLit """, """; PStr name; PLit (" submodule"");" ++ nl)]).
    + cbn [flatten ptext]. rewrite ?append_empty_r. rewrite ?append_assoc. reflexivity.
    + holes.
    + intros stack. reflexivity.
  - repeat (apply andb_true_iff in H; let H1 := fresh "W" in destruct H as [H1 H]).
    apply plain_code_neutral in W. apply plain_code_neutral in W0. apply plain_str_neutral in W1.
    assert (Hmem : neutral (String.concat "" (map (r_member indent8 "") members))).
    { apply neutral_concat. induction members as [|m r IH]; [constructor|].
      cbn [forallb] in H. apply andb_true_iff in H. destruct H as [Hm Hr].
      cbn [map]. constructor; [apply r_member_neutral; exact Hm | apply IH; exact Hr]. }
    cbn [r_item].
    set (par := match parent with Some p => p ++ ", " | None => "" end).
    assert (Hpar : neutral par).
    { unfold par. destruct parent as [p|]; [|apply neutral_empty].
      apply neutral_app; [apply plain_code_neutral; exact W2 | plain]. }
    destruct instance as [inst|].
    + apply plain_code_neutral in W3.
      apply (neutral_pieces _ [PLit (nl ++ "    py::class_<"); PCode cpp; PLit ", "; PCode par; PLit "std::shared_ptr<"; PCode cpp; PLit ">> ";
                               PCode inst; PLit "("; PCode mv; PLit ", """; PStr py; PLit (""");" ++ nl ++ "    "); PCode inst;
                               PCode (String.concat "" (map (r_member indent8 "") members)); PLit (";" ++ nl)]).
      * cbn [flatten ptext]. rewrite ?append_empty_r. rewrite ?append_assoc. reflexivity.
      * holes.
      * intros stack. reflexivity.
    + apply (neutral_pieces _ [PLit (nl ++ "    py::class_<"); PCode cpp; PLit ", "; PCode par; PLit "std::shared_ptr<"; PCode cpp; PLit ">>(";
                               PCode mv; PLit ", """; PStr py; PLit """)";
                               PCode (String.concat "" (map (r_member indent8 "") members)); PLit (";" ++ nl)]).
      * cbn [flatten ptext]. rewrite ?append_empty_r. rewrite ?append_assoc. reflexivity.
      * holes.
      * intros stack. reflexivity.
  - cbn [r_item]. apply neutral_app; [plain | apply r_enum_neutral; exact H].
  - repeat (apply andb_true_iff in H; let H1 := fresh "W" in destruct H as [H1 H]).
    apply plain_code_neutral in W. apply plain_code_neutral in W0. apply plain_str_neutral in H.
    cbn [r_item].
    apply (neutral_pieces _ [PLit (nl ++ "    py::class_<"); PCode cpp; PLit ", std::shared_ptr<"; PCode cpp; PLit ">>("; PCode mv;
                             PLit ", """; PStr py; PLit """);"]).
    + cbn [flatten ptext]. rewrite ?append_empty_r. rewrite ?append_assoc. reflexivity.
    + holes.
    + intros stack. reflexivity.
  - cbn [r_item]. apply r_enum_neutral. exact H.
  - repeat (apply andb_true_iff in H; let H1 := fresh "W" in destruct H as [H1 H]).
    apply plain_code_neutral in W. apply plain_str_neutral in W0. apply plain_code_neutral in W1. apply bal_neutral in H.
    cbn [r_item].
    apply (neutral_pieces _ [PLit (nl ++ "    "); PCode mv; PLit ".attr("""; PStr name; PLit """) = "; PCode ns; PCode value; PLit ";"]).
    + cbn [flatten ptext]. rewrite ?append_empty_r. rewrite ?append_assoc. reflexivity.
    + holes.
    + intros stack. reflexivity.
  - repeat (apply andb_true_iff in H; let H1 := fresh "W" in destruct H as [H1 H]).
    apply plain_code_neutral in W. apply plain_str_neutral in W0. pose proof (r_sig_neutral _ W1) as Hsig.
    apply plain_code_neutral in W2. apply plain_code_neutral in W3.
    pose proof (join_plain_neutral ", " call_args ltac:(plain) W4) as Hcall.
    pose proof (r_pyargs_neutral _ H) as Hpy.
    cbn [r_item].
    set (retp := if returns then "return" else "").
    assert (Hret : neutral retp) by (unfold retp; destruct returns; first [apply neutral_empty | plain]).
    apply (neutral_pieces _ [PLit (nl ++ "    "); PCode mv; PLit ".def("""; PStr py; PLit """,[]("; PCode (r_sig params); PLit "){";
                             PCode retp; PLit " "; PCode caller; PCode callee; PLit "("; PCode (join ", " call_args); PLit ");";
                             PLit "}"; PCode (r_pyargs pyargs); PLit ");"]).
    + cbn [flatten ptext]. rewrite ?append_empty_r. rewrite ?append_assoc. reflexivity.
    + holes.
    + intros stack. reflexivity.
Qed.

(* the whole wrapped namespace text *)
Theorem r_items_neutral : forall l, forallb wf_item l = true -> neutral (r_items l).
Proof.
  intros l H. unfold r_items. apply neutral_concat.
  induction l as [|i r IH]; [constructor|].
  cbn [forallb] in H. apply andb_true_iff in H. destruct H as [Hi Hr].
  cbn [map]. constructor; [apply r_item_neutral; exact Hi | apply IH; exact Hr].
Qed.

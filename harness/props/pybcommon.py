"""Shared machinery of the pybind properties: byte-level correspondence of wrap_file."""
import glob
import os
import random
import multiprocessing as mp

import common
import dump
import gen_inputs as G
import sexp

import gtwrap.interface_parser as parser
import gtwrap.template_instantiator as inst
from gtwrap.pybind_wrapper import PybindWrapper

TPL = open(common.REPO + '/templates/pybind_wrapper.tpl.example').read()
PQUIRKS = ['q_ignored_enums', 'q_values_insert']


def impl_wrap(text, cfg, module_name='mod', submodules=None, tpl=TPL):
    """cfg = (top, ignore, boost).  returns ('ok', text) | (kind, msg)"""
    top, ignore, boost = cfg
    try:
        w = PybindWrapper(module_name=module_name, top_module_namespaces=list(top),
                          use_boost_serialization=boost, ignore_classes=list(ignore), module_template=tpl)
        return ('ok', w.wrap_file(text, module_name=module_name,
                                  submodules=None if submodules is None else list(submodules)))
    except Exception as e:
        return (common.classify_exc(e), str(e)[:200])


def impl_items(text):
    """dump of the instantiated tree of a fresh parse, or (kind, msg)"""
    try:
        m = inst.instantiate_namespace(parser.Module.parseString(text))
        return ('ok', dump.items(m))
    except dump.DumpError:
        raise      # the tree no longer has the shape the model's tree type assumes: the tie is broken, never skipped
    except Exception as e:
        return (common.classify_exc(e), str(e)[:200])


def ns_paths(items, prefix=()):
    out = []
    for it in items:
        if it[0] == 'ns':
            p = prefix + (it[1], )
            out.append(p)
            out += ns_paths(it[2], p)
    return out


def class_names(items, prefix=()):
    """C++ names of the instantiated classes / declarations as the ignore list spells them"""
    out = []
    for it in items:
        if it[0] == 'ns':
            out += class_names(it[2], prefix + (it[1], ))
        elif it[0] == 'iclass':
            home, orig, templated, insts = it[1], it[2], it[3], it[4]
            out.append(('iclass', it))
    return out


def option_sets(r, items, n):
    """n option sets for one input: top namespace at every depth present + an absent one,
    ignore lists over the real class names, serialization on/off"""
    paths = ns_paths(items)
    tops = [('', )] + [('', ) + p for p in paths] + [('', 'absent_ns')]
    out = []
    for k in range(n):
        top = tops[k % len(tops)] if k < len(tops) else r.choice(tops)
        boost = r.random() < 0.5
        out.append((list(top), boost))
    return out


def detect_pquirks():
    bits = ''
    # q_ignored_enums
    st, txt = impl_wrap('class A { enum K { X }; };', ([''], ['A'], False))
    bits += '1' if (st == 'ok' and 'py::enum_<A::K>' in txt) else '0'
    st, txt = impl_wrap('namespace gtsam { class Values { void insert(size_t j, double x); }; }', ([''], [], False))
    bits += '1' if (st == 'ok' and '"insert_x"' in txt) else '0'
    return bits


def _job(job):
    text, cfgs, module_name, submodules = job
    it = impl_items(text)
    outs = [impl_wrap(text, c, module_name, submodules) for c in cfgs]
    return it, outs


PQUIRKS = ['q_ignored_enums', 'q_values_insert', 'q_keywords_table', 'q_var_default_ns']
PSPEC = '0' * len(PQUIRKS)


def detect_pquirks():  # noqa: F811  (extends the earlier definition)
    bits = ''
    st, txt = impl_wrap('class A { enum K { X }; };', ([''], ['A'], False))
    bits += '1' if (st == 'ok' and 'py::enum_<A::K>' in txt) else '0'
    st, txt = impl_wrap('namespace gtsam { class Values { void insert(size_t j, double x); }; }', ([''], [], False))
    bits += '1' if (st == 'ok' and '"insert_x"' in txt) else '0'
    st, txt = impl_wrap('class A { void async(); void await(); };', ([''], [], False))
    bits += '1' if (st == 'ok' and '"async"' in txt) else '0'
    st, txt = impl_wrap('namespace ns { const double k = -9.81; }', ([''], [], False))
    bits += '1' if (st == 'ok' and 'ns::-9.81' in txt) else '0'
    return bits


def pyb_known(rep, q, prop):
    import json
    with open(os.path.join(common.VERIF, 'known_findings.json')) as f:
        fs = json.load(f)['findings']
    for f in fs:
        if f['property'] != prop or f.get('pquirk') is None:
            continue
        on = q[PQUIRKS.index(f['pquirk'])] == '1'
        if on and f['status'] == 'open':
            rep.known('%s: %s [witness: %s]' % (f['id'], f['what_fails'], f['witness']))
        elif on and f['status'] == 'fixed':
            rep.violation({'kind': 'counterexample', 'what': 'fixed finding returned: ' + f['id'], 'input': f['witness']})
        elif not on and f['status'] == 'open':
            rep.bump('open_finding_absent:' + f['id'])


def gen_cases(tier, seed, n_quick, n_thorough, opts_per_input=3, profile=None):
    """[(name, text)] - fixtures, corpus, generated"""
    out = []
    for f in sorted(glob.glob(common.REPO + '/tests/fixtures/*.i')):
        out.append(('fixture:' + os.path.basename(f), open(f).read()))
    for f in sorted(glob.glob(os.path.join(common.VERIF, 'corpus', 'pybind', '*.i'))):
        out.append(('corpus:' + os.path.basename(f), open(f).read()))
    n = n_quick if tier == 'quick' else n_thorough
    stats = {}
    for k in range(n):
        r = random.Random('pyb/%d/%d' % (seed, k))
        prof = profile or G.Profile(p_keyword_arg=0.06)
        g = G.Gen(r, prof)
        m = g.module()
        out.append(('gen:%d/%d' % (seed, k), G.text(G.tokens(m))))
        for a, b in g.stats.items():
            stats[a] = stats.get(a, 0) + b
    return out, stats


def impl_parse_dump(text):
    try:
        return ('ok', dump.module(parser.Module.parseString(text)))
    except Exception as e:
        return (common.classify_exc(e), str(e)[:200])


def _case_job(job):
    name, text, seed = job
    it = impl_items(text)
    if it[0] != 'ok':
        return name, text, it, []
    pd = impl_parse_dump(text)
    it = it + (pd[1] if pd[0] == 'ok' else None, )
    r = random.Random('opt/%s/%s' % (seed, name))
    paths = ns_paths(it[1])
    tops = [['']] + [[''] + list(p) for p in paths] + [['', 'absent_ns']]
    r.shuffle(tops)
    tops = [['']] + [t for t in tops if t != ['']][:2]
    classes = all_cpp_names(it[1])
    outs = []
    for i, top in enumerate(tops):
        boost = r.random() < 0.5
        ign = []
        if classes and r.random() < 0.5:
            ign = r.sample(classes, min(len(classes), r.choice([1, 1, 2])))
        if r.random() < 0.15:
            ign.append('no::Such')
        cfg = (top, ign, boost)
        outs.append((cfg, impl_wrap(text, cfg)))
    return name, text, it, outs


def all_cpp_names(items, acc=None):
    """C++ names the ignore list would use, computed by the implementation's own to_cpp()"""
    # dump does not carry to_cpp(); recompute through the model-independent route: ask the implementation
    return _cpp_names_impl(items)


def _cpp_names_impl(items):
    out = []

    def tn(t):
        ns, name, insts = t[1], t[2], t[3]
        nm = name if isinstance(name, str) else tn(name[1])
        s = nm + ('<' + ', '.join(tn(i) for i in insts) + '>' if insts else '')
        return ('::'.join(ns) + '::' if ns else '') + s

    def walk(its):
        for it in its:
            if it[0] == 'ns':
                walk(it[2])
            elif it[0] == 'iclass':
                home, orig, templ, insts = it[1], it[2], it[3], it[4]
                name = orig + ('<' + ', '.join(tn(i) for i in insts) + '>' if templ == 'T' or templ is True else '')
                out.append(('::'.join(home) + '::' if home else '') + name)
    walk(items)
    return out


def correspond(rep, tier, seed, q, view, n_quick, n_thorough, profile=None, e2e=False):
    """byte-level tie first; where bytes differ the property's view of both texts decides.
    Returns list of disagreement dicts."""
    import extract_pybind as E
    cases, stats = gen_cases(tier, seed, n_quick, n_thorough, profile=profile)
    rep.coverage['input_distribution'] = stats
    with mp.get_context('fork').Pool(14) as pool:
        results = pool.map(_case_job, [(n, t, seed) for n, t in cases], chunksize=2)
    model = common.Model()
    dis = []
    try:
        for name, text, it, outs in results:
            if it[0] != 'ok':
                rep.bump('impl_' + it[0])
                continue
            for cfg, (st, out) in outs:
                top, ign, boost = cfg
                key = common.sha(text + repr(cfg))
                rep.hit(key, 'py::class_' in (out if st == 'ok' else '') or '.def(' in (out if st == 'ok' else ''))
                ans = model.ask('pybind', [q, [top, ign, boost], TPL, 'mod', [], it[1]])
                spec = model.ask('pybind', [PSPEC, [top, ign, boost], TPL, 'mod', [], it[1]])
                mtext = sexp.loads(ans[3:]) if ans.startswith('ok ') else None
                stext = sexp.loads(spec[3:]) if spec.startswith('ok ') else None
                if st != 'ok':
                    rep.bump('impl_' + st)
                    if mtext is not None and '<UnboundLocalError>' not in mtext and '<IndexError>' not in mtext \
                            and '<AttributeError>' not in mtext and '<TypeError>' not in mtext:
                        dis.append({'case': name, 'input': text, 'cfg': cfg, 'kind': 'impl-fails:' + st,
                                    'impl': out, 'model': (mtext or ans)[:1500]})
                    continue
                if mtext == out and e2e and len(it) > 2 and it[2] is not None:
                    # end to end: the model's own instantiation of the implementation's parse tree, then the
                    # generator model (an instantiation defect shows in the generated code)
                    from props import instcommon as ic
                    iq = correspond.__dict__.setdefault('iq', ic.detect_quirks())
                    e = model.ask('pybind_e2e', [iq, q, [top, ign, boost], TPL, 'mod', [], it[2]])
                    if e.startswith('ok ') and not any(mk in e for mk in ic.MARKERS):
                        etext = sexp.loads(e[3:])
                        if etext != out:
                            rep.bump('e2e_differs')
                            vi = view(E.records(out))
                            ve = view(E.records(etext))
                            if vi != ve:
                                dis.append({'case': name, 'input': text, 'cfg': cfg, 'kind': 'counterexample',
                                            'stage': 'instantiation (end-to-end model differs, generator stage agrees)',
                                            'impl_view': repr([x for x in vi if x not in ve])[:3000],
                                            'model_view': repr([x for x in ve if x not in vi])[:3000]})
                                continue
                        else:
                            rep.bump('e2e_equal')
                if mtext == out:
                    rep.bump('bytes_equal')
                    if stext != mtext:
                        try:
                            if view(E.records(stext)) != view(E.records(mtext)):
                                rep.bump('known_deviation_inputs')
                        except Exception:
                            pass
                    rep.sample({'cfg': cfg, 'input': text[:300], 'output_head': out[:200]}, cap=3)
                    continue
                rep.bump('bytes_differ')
                try:
                    vi = view(E.records(out))
                except Exception as e:
                    dis.append({'case': name, 'input': text, 'cfg': cfg, 'kind': 'unparsable-output',
                                'impl': out[:3000], 'error': repr(e)})
                    continue
                vm = view(E.records(mtext)) if mtext is not None else None
                vs = view(E.records(stext)) if stext is not None else None
                if vi == vm:
                    rep.bump('view_equal_despite_bytes')
                    continue
                dis.append({'case': name, 'input': text, 'cfg': cfg,
                            'kind': 'counterexample' if vi != vs else 'model-differs-impl-matches-spec',
                            'impl_view': repr(vi)[:3000], 'model_view': repr(vm)[:3000]})
    finally:
        model.close()
    return dis


def report(rep, dis, what):
    shown = 0
    for d in dis:
        if shown >= 3:
            break
        shown += 1
        d = dict(d)
        d['what'] = what
        kind = d.get('kind', '')
        rep.violation(d, no_input=(kind == 'model-differs-impl-matches-spec'))

(* C01 - interface files parse to a tree that mirrors the source exactly. *)
From Coq Require Import String Ascii List Bool Arith.
From Wrap Require Import Base.Str Syntax.Ast Parse.Peg Parse.Build Parse.Spec.
From Wrap Require gen.Grammar.
Import ListNotations.
Open Scope string_scope.

(* Tie obligations, re-checked on every run against the term regenerated from the live pyparsing objects: the grammar
   is the one the theorems are about, the hand-modelled scanners still describe the same sub-expressions, tabs are
   expanded by parseString. *)
Theorem C01_grammar_is_spec : Grammar.grammar = spec_grammar.
Proof. vm_compute. reflexivity. Qed.
Print Assumptions C01_grammar_is_spec.
Theorem C01_default_arg_is_modelled : Grammar.default_arg_fingerprint = default_arg_expected.
Proof. reflexivity. Qed.
Print Assumptions C01_default_arg_is_modelled.
Theorem C01_comment_is_modelled : Grammar.comment_fingerprint = comment_expected.
Proof. reflexivity. Qed.
Print Assumptions C01_comment_is_modelled.
Theorem C01_tabs_expanded : Grammar.tabs_expanded = true.
Proof. reflexivity. Qed.
Print Assumptions C01_tabs_expanded.

(* The parse actions of gtwrap.interface_parser: from the tagged match tree of Parse/Peg.v to the parse tree of
   Syntax/Ast.v, with the constructors' validation (constructor names, operator arity and types).  Definitions only. *)
From Coq Require Import String Ascii List Bool Arith.
From Wrap Require Import Base.Str Base.ListX Syntax.Ast Syntax.Print Inst.Model Parse.Peg.
Import ListNotations.
Open Scope string_scope.
Open Scope list_scope.

Definition has_name (n : string) (it : item) : bool := existsb (String.eqb n) (fst it).
Definition named (n : string) (its : list item) : list value := map snd (filter (has_name n) its).
Definition first_named (n : string) (its : list item) : option value := hd_error (named n its).
Definition str_of (v : value) : option string := match v with VStr s => Some s | _ => None end.
Definition strs (its : list item) : list string :=
  flat_map (fun it => match snd it with VStr s => [s] | _ => [] end) its.
Definition flag (n : string) (its : list item) : bool := match named n its with [] => false | _ => true end.

Definition bind {A B} (r : res A) (f : A -> res B) : res B :=
  match r with Ok a => f a | Err m => Err m | Unsupported m => Unsupported m end.
Fixpoint mapM {A B} (f : A -> res B) (l : list A) : res (list B) :=
  match l with
  | [] => Ok []
  | x :: r => bind (f x) (fun y => bind (mapM f r) (fun ys => Ok (y :: ys)))
  end.
Definition bad {A} (what : string) : res A := Unsupported ("match tree: " ++ what).

(* Typename(t): the last identifier is the name *)
Definition typename_of_strs (l : list string) : res typename :=
  match rev l with
  | n :: r => Ok (Typename (rev r) (NStr n) [])
  | [] => bad "empty typename"
  end.
Definition b_typename (v : value) : res typename :=
  match v with
  | VNode _ its => typename_of_strs (strs its)
  | _ => bad "typename"
  end.

Definition b_ptr (its : list item) : ptrk :=
  if flag "is_shared_ptr" its then PShared else if flag "is_ptr" its then PRaw else if flag "is_ref" its then PRef else PNone.

Fixpoint b_ty (fuel : nat) (v : value) : res ty :=
  match fuel with
  | O => Unsupported "fuel"
  | S f =>
    match v with
    | VNode tag its =>
      if String.eqb tag "Type" then
        match first_named "basic" its, first_named "qualified" its with
        | Some b, _ => bind (b_typename b) (fun tn => Ok (TPlain tn (flag "is_const" its) (b_ptr its) true))
        | None, Some q => bind (b_typename q) (fun tn => Ok (TPlain tn (flag "is_const" its) (b_ptr its) false))
        | None, None => Err "ValueError"
        end
      else if String.eqb tag "TemplatedType" then
        match first_named "typename" its with
        | Some t =>
          bind (b_typename t) (fun tn =>
          bind (mapM (b_ty f) (named "template_params" its)) (fun ps =>
          match tn with Typename ns nme _ => Ok (TTempl ns nme ps (flag "is_const" its) (b_ptr its)) end))
        | None => bad "templated type without typename"
        end
      else bad "type node"
    | _ => bad "type"
    end
  end.

Definition depth_fuel : nat := 200.
Definition b_type (v : value) : res ty := b_ty depth_fuel v.

Definition b_ret (v : value) : res ret :=
  match v with
  | VNode _ its =>
    match named "type1" its, named "type2" its with
    | [t1], [t2] => bind (b_type t1) (fun a => bind (b_type t2) (fun b => Ok (RPair a b)))
    | [t1], [] => bind (b_type t1) (fun a => Ok (RSingle a))
    | _, _ => bad "return type"
    end
  | _ => bad "return type"
  end.

Definition b_default (its : list item) : option string :=
  match named "default" its with VStr s :: _ => Some s | _ => None end.

Definition b_arg (v : value) : res arg :=
  match v with
  | VNode _ its =>
    match first_named "ctype" its, first_named "name" its with
    | Some t, Some (VStr n) => bind (b_type t) (fun ty => Ok {| a_ty := ty; a_name := n; a_default := b_default its |})
    | _, _ => bad "argument"
    end
  | _ => bad "argument"
  end.
Definition b_args (v : value) : res (list arg) :=
  match v with VNode _ its => mapM b_arg (named "args_list" its) | _ => bad "argument list" end.

(* instantiation values of a template parameter: a TemplatedType contributes its typename *)
Definition b_inst (v : value) : res typename :=
  match v with
  | VNode tag _ => if String.eqb tag "TemplatedType" then bind (b_type v) (fun t => Ok (ty_typename t)) else b_typename v
  | _ => bad "instantiation"
  end.
Definition b_template (v : value) : res template :=
  match v with
  | VNode _ its =>
    bind (mapM (fun ti => match ti with
                          | VNode _ tits =>
                            match first_named "typename" tits with
                            | Some (VStr n) => bind (mapM b_inst (named "instantiations" tits)) (fun l => Ok (n, l))
                            | _ => bad "template parameter"
                            end
                          | _ => bad "template parameter"
                          end) (named "typename_and_instantiations_list" its))
         (fun l => Ok {| t_names := map fst l; t_insts := map snd l |})
  | _ => bad "template"
  end.
Definition b_tmpl (its : list item) : res (option template) :=
  match first_named "template" its with
  | Some v => bind (b_template v) (fun t => Ok (Some t))
  | None => Ok None
  end.

Definition name_of (its : list item) : res string :=
  match first_named "name" its with Some (VStr n) => Ok n | _ => bad "name" end.
Definition ret_of (its : list item) : res ret :=
  match first_named "return_type" its with Some v => b_ret v | None => bad "return type missing" end.
Definition args_of (its : list item) : res (list arg) :=
  match first_named "args_list" its with Some v => b_args v | None => bad "argument list missing" end.

Definition b_enum (its : list item) : res enum :=
  bind (name_of its) (fun n =>
  bind (mapM (fun e => match e with
                       | VNode _ eits => match strs eits with [x] => Ok x | _ => bad "enumerator" end
                       | _ => bad "enumerator" end) (named "enumerators" its))
       (fun l => Ok {| e_name := n; e_items := l |})).

Definition b_var (its : list item) : res var :=
  match first_named "ctype" its with
  | Some t => bind (b_type t) (fun ty => bind (name_of its) (fun n =>
              Ok {| v_ty := ty; v_name := n; v_default := b_default its |}))
  | None => bad "variable"
  end.

Definition ty_name (t : ty) : nm := match ty_typename t with Typename _ n _ => n end.
Definition ret_first (r : ret) : ty := match r with RSingle t => t | RPair t _ => t end.
Definition nm_eqb (a b : nm) : bool :=
  match a, b with NStr x, NStr y => String.eqb x y | _, _ => false end.

(* Operator.__init__ *)
Definition b_oper (its : list item) : res oper :=
  bind (ret_of its) (fun r => bind (args_of its) (fun a =>
  match first_named "operator" its with
  | Some (VStr sym) =>
    if andb (Nat.eqb (length a) 0) (negb (orb (String.eqb sym "+") (String.eqb sym "-"))) then Err "ValueError"
    else if negb (Nat.ltb (length a) 2) then Err "AssertionError"
    else match a with
         | [x] => if orb (String.eqb sym "()") (String.eqb sym "[]") then
                    Ok {| o_sym := sym; o_ret := r; o_args := a; o_const := flag "is_const" its |}
                  else if nm_eqb (ty_name (a_ty x)) (ty_name (ret_first r)) then
                    Ok {| o_sym := sym; o_ret := r; o_args := a; o_const := flag "is_const" its |}
                  else Err "AssertionError"
         | _ => Ok {| o_sym := sym; o_ret := r; o_args := a; o_const := flag "is_const" its |}
         end
  | _ => bad "operator symbol"
  end)).

Inductive member := MCtor (k : ctor) | MMethod (m : method) | MStatic (s : smethod) | MDunder (d : dunder)
                  | MVar (v : var) | MOper (o : oper) | MEnum (e : enum).

Definition b_member (v : value) : res member :=
  match v with
  | VNode tag its =>
    if String.eqb tag "Constructor" then
      bind (b_tmpl its) (fun t => bind (name_of its) (fun n => bind (args_of its) (fun a =>
      Ok (MCtor {| k_tmpl := t; k_name := n; k_args := a |}))))
    else if String.eqb tag "Method" then
      bind (b_tmpl its) (fun t => bind (name_of its) (fun n => bind (ret_of its) (fun r => bind (args_of its) (fun a =>
      Ok (MMethod {| m_tmpl := t; m_name := n; m_ret := r; m_args := a; m_const := flag "is_const" its |})))))
    else if String.eqb tag "StaticMethod" then
      bind (b_tmpl its) (fun t => bind (name_of its) (fun n => bind (ret_of its) (fun r => bind (args_of its) (fun a =>
      Ok (MStatic {| s_tmpl := t; s_name := n; s_ret := r; s_args := a |})))))
    else if String.eqb tag "DunderMethod" then
      bind (name_of its) (fun n => bind (args_of its) (fun a => Ok (MDunder {| du_name := n; du_args := a |})))
    else if String.eqb tag "Variable" then bind (b_var its) (fun x => Ok (MVar x))
    else if String.eqb tag "Operator" then bind (b_oper its) (fun x => Ok (MOper x))
    else if String.eqb tag "Enum" then bind (b_enum its) (fun x => Ok (MEnum x))
    else bad "class member"
  | _ => bad "class member"
  end.

Definition b_class (its : list item) : res class :=
  bind (b_tmpl its) (fun t => bind (name_of its) (fun n =>
  bind (match first_named "parent_class" its with
        | Some (VNode tag pits) =>
          if String.eqb tag "TemplatedType" then bind (b_type (VNode tag pits)) (fun x => Ok (Some (BTempl x)))
          else bind (b_typename (VNode tag pits)) (fun x => Ok (Some (BName x)))
        | Some _ => bad "parent class"
        | None => Ok None
        end) (fun base =>
  match first_named "members" its with
  | Some (VNode _ mits) =>
    bind (mapM b_member (map snd mits)) (fun ms =>
    let ctors := flat_map (fun m => match m with MCtor k => [k] | _ => [] end) ms in
    if forallb (fun k => String.eqb (k_name k) n) ctors then
      Ok {| c_tmpl := t; c_virtual := flag "is_virtual" its; c_name := n; c_base := base;
            c_ctors := ctors;
            c_methods := flat_map (fun m => match m with MMethod x => [x] | _ => [] end) ms;
            c_statics := flat_map (fun m => match m with MStatic x => [x] | _ => [] end) ms;
            c_dunders := flat_map (fun m => match m with MDunder x => [x] | _ => [] end) ms;
            c_props := flat_map (fun m => match m with MVar x => [x] | _ => [] end) ms;
            c_ops := flat_map (fun m => match m with MOper x => [x] | _ => [] end) ms;
            c_enums := flat_map (fun m => match m with MEnum x => [x] | _ => [] end) ms |}
    else Err "ValueError")
  | _ => bad "class members"
  end))).

Fixpoint b_decl (fuel : nat) (v : value) : res decl :=
  match fuel with
  | O => Unsupported "fuel"
  | S f =>
    match v with
    | VNode tag its =>
      if String.eqb tag "Class" then bind (b_class its) (fun c => Ok (DClass c))
      else if String.eqb tag "GlobalFunction" then
        bind (b_tmpl its) (fun t => bind (name_of its) (fun n => bind (ret_of its) (fun r => bind (args_of its) (fun a =>
        Ok (DFun {| f_tmpl := t; f_name := n; f_ret := r; f_args := a |})))))
      else if String.eqb tag "TypedefTemplateInstantiation" then
        match first_named "templated_type" its, first_named "new_name" its with
        | Some t, Some (VStr n) => bind (b_type t) (fun ty => Ok (DTypedef (ty_typename ty) n))
        | _, _ => bad "typedef"
        end
      else if String.eqb tag "ForwardDeclaration" then
        match first_named "name" its with
        | Some t =>
          bind (b_typename t) (fun tn =>
          bind (match first_named "parent_type" its with
                | Some p => bind (b_typename p) (fun x => Ok (Some x))
                | None => Ok None end) (fun p =>
          Ok (DFwd {| fw_virtual := flag "is_virtual" its; fw_tn := tn; fw_parent := p |})))
        | None => bad "forward declaration"
        end
      else if String.eqb tag "Include" then
        match first_named "header" its with Some (VStr h) => Ok (DInclude h) | _ => bad "include" end
      else if String.eqb tag "Enum" then bind (b_enum its) (fun e => Ok (DEnum e))
      else if String.eqb tag "Variable" then bind (b_var its) (fun x => Ok (DVar x))
      else if String.eqb tag "Namespace" then
        bind (name_of its) (fun n => bind (mapM (b_decl f) (named "content" its)) (fun c => Ok (DNamespace n c)))
      else bad "declaration"
    | _ => bad "declaration"
    end
  end.

Definition b_module (its : list item) : res (list decl) :=
  match its with
  | [(_, VNode _ cits)] => mapM (b_decl depth_fuel) (map snd cits)
  | _ => bad "module"
  end.

(* Module.parseString as a function of the grammar term.  The fuel only bounds the recursion depth of the interpreter
   (Parse/RoundTripModule.v shows that this much is enough for every file of the round-trip fragment). *)
Definition text_fuel (text : string) : nat := Nat.tail_add (40 * String.length text) 100.   (* = 40 * length + 100; the tail-recursive sum keeps the extracted Peano arithmetic off the stack *)
Definition parse_module (g : grammar) (text : string) : res (list decl) :=
  match parse_text g (text_fuel text) text with
  | Match [(_, VNode _ its)] _ => b_module its
  | Match _ _ => bad "top"
  | Fail => Err "ParseException"
  | NoFuel => Unsupported "fuel"
  end.

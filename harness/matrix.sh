#!/bin/bash
# usage: matrix.sh "<seed dirs>" "<property ids>"  -> one line per (seed, property)
cd "$(dirname "$0")/.."
for s in $1; do
  /venv/bin/python harness/seedtool.py detect seeded/$s $2 2>&1 | grep -v WARNING > _build/matrix_$s.json
  /venv/bin/python - "$s" <<'PY'
import json,sys
s=sys.argv[1]
try:
    d=json.load(open('_build/matrix_%s.json'%s))
except Exception as e:
    print(s,'ERROR',open('_build/matrix_%s.json'%s).read()[:300]); sys.exit()
for p,v in d.items():
    tail='no-failing-input' if any('no-failing-input-found' in x for x in v['violations']) else ''
    print(s,p,'exit',v['exit'],v.get('replay_kind',''),tail)
PY
done

(* C17: how a docstring becomes a C++ string literal (pybind_wrapper.py:282) and how a C++ compiler
   decodes it.  Texts are lists of Unicode code points; decoded values are lists of bytes. *)
From Coq Require Import List Bool NArith Lia.
From Wrap Require gen.Tables.
Import ListNotations.
Open Scope N_scope.

Definition cp := N.

Definition bs : cp := 92.    (* backslash *)
Definition dq : cp := 34.    (* double quote *)
Definition sq : cp := 39.    (* single quote *)

Fixpoint in_ranges (c : N) (l : list (N * N)) : bool :=
  match l with
  | [] => false
  | (lo, hi) :: r => if andb (lo <=? c) (c <=? hi) then true else in_ranges c r
  end.
(* str.isprintable for one code point, from the regenerated table *)
Definition printable (c : cp) : bool := in_ranges c Tables.printable_ranges.

Definition hexdig (n : N) : cp := if n <? 10 then 48 + n else 87 + n.     (* lower-case *)
Fixpoint hex_digits (width : nat) (n : N) : list cp :=
  match width with
  | O => []
  | S w => hex_digits w (n / 16) ++ [hexdig (n mod 16)]
  end.

(* Python repr() of a str, without the delimiters *)
Definition repr_char (quote : cp) (c : cp) : list cp :=
  if c =? bs then [bs; bs]
  else if c =? quote then [bs; c]
  else if c =? 9 then [bs; 116]            (* \t *)
  else if c =? 10 then [bs; 110]           (* \n *)
  else if c =? 13 then [bs; 114]           (* \r *)
  else if orb (c <? 32) (c =? 127) then bs :: 120 :: hex_digits 2 c
  else if c <? 127 then [c]
  else if printable c then [c]
  else if c <? 256 then bs :: 120 :: hex_digits 2 c
  else if c <? 65536 then bs :: 117 :: hex_digits 4 c
  else bs :: 85 :: hex_digits 8 c.

Definition mem_cp (c : cp) (l : list cp) : bool := existsb (N.eqb c) l.
(* repr picks double quotes only when the text has a single quote and no double quote *)
Definition repr_quote (s : list cp) : cp := if andb (mem_cp sq s) (negb (mem_cp dq s)) then dq else sq.
Definition repr_body (s : list cp) : list cp := flat_map (repr_char (repr_quote s)) s.

(* .replace: every double quote gets a backslash *)
Definition escape_dq (l : list cp) : list cp := flat_map (fun c => if c =? dq then [bs; dq] else [c]) l.

(* the text between the quotes of the generated literal *)
Definition literal (s : list cp) : list cp := escape_dq (repr_body s).

(* ---- UTF-8 ---- *)
Definition utf8 (c : cp) : list N :=
  if c <? 128 then [c]
  else if c <? 2048 then [192 + c / 64; 128 + c mod 64]
  else if c <? 65536 then [224 + c / 4096; 128 + (c / 64) mod 64; 128 + c mod 64]
  else [240 + c / 262144; 128 + (c / 4096) mod 64; 128 + (c / 64) mod 64; 128 + c mod 64].
Definition utf8s (s : list cp) : list N := flat_map utf8 s.

(* ---- C++ string-literal decoding (narrow literal, UTF-8 execution charset) ---- *)
Definition hexval (c : cp) : option N :=
  if andb (48 <=? c) (c <=? 57) then Some (c - 48)
  else if andb (97 <=? c) (c <=? 102) then Some (c - 87)
  else if andb (65 <=? c) (c <=? 70) then Some (c - 55)
  else None.
(* greedy hex digits: value and rest *)
Fixpoint take_hex (l : list cp) (acc : N) : N * list cp :=
  match l with
  | c :: r => match hexval c with Some v => take_hex r (acc * 16 + v) | None => (acc, l) end
  | [] => (acc, [])
  end.
Fixpoint take_hex_n (n : nat) (l : list cp) (acc : N) : option (N * list cp) :=
  match n, l with
  | O, _ => Some (acc, l)
  | S k, c :: r => match hexval c with Some v => take_hex_n k r (acc * 16 + v) | None => None end
  | S _, [] => None
  end.

Fixpoint decode (fuel : nat) (l : list cp) : option (list N) :=
  match fuel with
  | O => None
  | S f =>
    match l with
    | [] => Some []
    | c :: r =>
      if c =? bs then
        match r with
        | [] => None
        | e :: r' =>
          if e =? 110 then option_map (cons 10) (decode f r')
          else if e =? 116 then option_map (cons 9) (decode f r')
          else if e =? 114 then option_map (cons 13) (decode f r')
          else if orb (e =? bs) (orb (e =? dq) (e =? sq)) then option_map (cons e) (decode f r')
          else if e =? 120 then
            match r' with
            | [] => None
            | h :: _ => match hexval h with
                        | None => None
                        | Some _ => let '(v, rest) := take_hex r' 0 in
                                    if v <? 256 then option_map (cons v) (decode f rest)
                                    else None      (* hex escape sequence out of range *)
                        end
            end
          else if e =? 117 then
            match take_hex_n 4 r' 0 with
            | Some (v, rest) => option_map (app (utf8 v)) (decode f rest)
            | None => None
            end
          else if e =? 85 then
            match take_hex_n 8 r' 0 with
            | Some (v, rest) => option_map (app (utf8 v)) (decode f rest)
            | None => None
            end
          else None
        end
      else if c =? dq then None          (* an unescaped quote ends the literal *)
      else if c =? 10 then None          (* a raw newline inside a literal *)
      else option_map (app (utf8 c)) (decode f r)
    end
  end.
Definition cpp_decode (l : list cp) : option (list N) := decode (S (length l)) l.

(* characters on which the round trip is guaranteed: printable ones and tab / newline / carriage return *)
Definition plain (c : cp) : bool :=
  orb (orb (c =? 9) (orb (c =? 10) (c =? 13)))
      (andb (negb (orb (c <? 32) (c =? 127))) (orb (c <? 127) (printable c))).

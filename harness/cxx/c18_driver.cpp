// C18 driver: evaluates matlab.h's wrap / unwrap specialisations on values read from stdin and prints what the
// arrays look like.  One command per line:
//   bool <0|1> | char <int> | uchar <int> | int <int> | size_t <u64> | double <hex bits>
//   string <hex bytes> | vector <n> <hex bits>... | matrix <m> <n> <hex bits row-major>...
//   err-scalar <type> <m> <n> | err-vector <classid:double|uint64> <m> <n> | err-matrix
// Output: one line per command: "<class> <m> <n> <cells hex...> | <unwrapped value>"  or  "ERROR <what>"
#include "mex_impl.h"
#include <matlab.h>
#include <cinttypes>
#include <iostream>
#include <sstream>

static std::string dump(const mxArray *a) {
  std::ostringstream o;
  o << (int)a->cls << " " << a->m << " " << a->n;
  if (a->cls == mxCHAR_CLASS) { o << " s"; for (unsigned char c : a->chars) { char b[4]; snprintf(b, 4, "%02x", c); o << b; } return o.str(); }
  size_t k = a->m * a->n;
  for (size_t i = 0; i < k; i++) { uint64_t v; memcpy(&v, a->data.data() + 8 * i, 8); char b[20]; snprintf(b, 20, " %016" PRIx64, v); o << b; }
  return o.str();
}
static double bits(const std::string &h) { uint64_t v = strtoull(h.c_str(), nullptr, 16); double d; memcpy(&d, &v, 8); return d; }
static std::string hexd(double d) { uint64_t v; memcpy(&v, &d, 8); char b[20]; snprintf(b, 20, "%016" PRIx64, v); return b; }

int main() {
  std::string line;
  while (std::getline(std::cin, line)) {
    std::istringstream in(line);
    std::string cmd; in >> cmd;
    try {
      if (cmd == "bool") { int v; in >> v; mxArray *a = wrap<bool>(v != 0); std::cout << dump(a) << " | " << (int)unwrap<bool>(a) << "\n"; }
      else if (cmd == "char") { int v; in >> v; mxArray *a = wrap<char>((char)v); std::cout << dump(a) << " | " << (int)unwrap<char>(a) << "\n"; }
      else if (cmd == "uchar") { int v; in >> v; mxArray *a = wrap<unsigned char>((unsigned char)v); std::cout << dump(a) << " | " << (int)unwrap<unsigned char>(a) << "\n"; }
      else if (cmd == "int") { long long v; in >> v; mxArray *a = wrap<int>((int)v); std::cout << dump(a) << " | " << unwrap<int>(a) << "\n"; }
      else if (cmd == "size_t") { unsigned long long v; in >> v; mxArray *a = wrap<size_t>((size_t)v); std::cout << dump(a) << " | " << unwrap<size_t>(a) << "\n"; }
      else if (cmd == "double") { std::string h; in >> h; mxArray *a = wrap<double>(bits(h)); std::cout << dump(a) << " | " << hexd(unwrap<double>(a)) << "\n"; }
      else if (cmd == "string") { std::string h; in >> h; std::string s; if (h != "-") for (size_t i = 0; i + 1 < h.size(); i += 2) s.push_back((char)strtoul(h.substr(i, 2).c_str(), nullptr, 16));
        mxArray *a = wrap<string>(s); std::string t = unwrap<string>(a); std::cout << dump(a) << " | s"; for (unsigned char c : t) { char b[4]; snprintf(b, 4, "%02x", c); std::cout << b; } std::cout << "\n"; }
      else if (cmd == "vector") { int n; in >> n; gtsam::Vector v(n); for (int i = 0; i < n; i++) { std::string h; in >> h; v(i) = bits(h); }
        mxArray *a = wrap<gtsam::Vector>(v); gtsam::Vector w = unwrap<gtsam::Vector>(a); std::cout << dump(a) << " | " << w.size(); for (int i = 0; i < w.size(); i++) std::cout << " " << hexd(w(i)); std::cout << "\n"; }
      else if (cmd == "point3") { gtsam::Vector v(3); for (int i = 0; i < 3; i++) { std::string h; in >> h; v(i) = bits(h); }
        gtsam::Point3 p(v); mxArray *a = wrap<gtsam::Point3>(p); gtsam::Point3 w = unwrap<gtsam::Point3>(a); std::cout << dump(a) << " | " << w.size(); for (int i = 0; i < w.size(); i++) std::cout << " " << hexd(w(i)); std::cout << "\n"; }
      else if (cmd == "matrix") { int m, n; in >> m >> n; gtsam::Matrix A(m, n); for (int i = 0; i < m; i++) for (int j = 0; j < n; j++) { std::string h; in >> h; A(i, j) = bits(h); }
        mxArray *a = wrap<gtsam::Matrix>(A); gtsam::Matrix B = unwrap<gtsam::Matrix>(a); std::cout << dump(a) << " | " << B.rows() << " " << B.cols();
        for (int i = 0; i < B.rows(); i++) for (int j = 0; j < B.cols(); j++) std::cout << " " << hexd(B(i, j)); std::cout << "\n"; }
      else if (cmd == "err-scalar") { std::string t; int m, n; in >> t >> m >> n; mxArray *a = mxCreateNumericMatrix(m, n, mxUINT64_CLASS, mxREAL);
        if (t == "bool") unwrap<bool>(a); else if (t == "char") unwrap<char>(a); else if (t == "uchar") unwrap<unsigned char>(a);
        else if (t == "int") unwrap<int>(a); else if (t == "size_t") unwrap<size_t>(a); else unwrap<double>(a); std::cout << "NOERROR\n"; }
      else if (cmd == "err-vector") { std::string c; int m, n; in >> c >> m >> n; mxArray *a = c == "double" ? mxCreateDoubleMatrix(m, n, mxREAL) : mxCreateNumericMatrix(m, n, mxUINT64_CLASS, mxREAL);
        unwrap<gtsam::Vector>(a); std::cout << "NOERROR\n"; }
      else if (cmd == "err-matrix") { std::string c; int m, n; in >> c >> m >> n; mxArray *a = c == "double" ? mxCreateDoubleMatrix(m, n, mxREAL) : (c == "char" ? mxCreateString("abc") : mxCreateNumericMatrix(m, n, mxUINT64_CLASS, mxREAL));
        unwrap<gtsam::Matrix>(a); std::cout << "NOERROR\n"; }
      else if (cmd == "err-string") { mxArray *a = mxCreateDoubleMatrix(1, 1, mxREAL); unwrap<string>(a); std::cout << "NOERROR\n"; }
      else std::cout << "BADCMD\n";
    } catch (const MexError &e) { std::cout << "ERROR " << e.what() << "\n"; }
  }
  return 0;
}

"""Seeded structured generator of interface files (concrete syntax trees), their expected
parse tree (abs), and their text under a layout.

Every random choice comes from the one random.Random passed in.  A CST node is a tuple whose
first element is its kind; `abs_module` maps a CST to the S-expression that dump.module gives for
the implementation's parse tree (stable partition of class members by kind, `enum class` and
`std::pair` spellings erased)."""
import random

KEYWORDS = {
    'const', 'virtual', 'class', 'static', 'pair', 'template', 'typedef', 'enum', 'namespace',
    'operator', 'void', 'bool', 'unsigned', 'char', 'int', 'size_t', 'double', 'float', 'This',
    'std', 'struct', 'include'
}
BASIC = ['void', 'bool', 'unsigned char', 'char', 'int', 'size_t', 'double', 'float']
BASIC_NONVOID = BASIC[1:]
MATLAB_SPECIAL = ['Vector', 'Matrix', 'Point2', 'Point3', 'string']
OPERATORS_BIN = ['+', '-', '*', '/', '%', '^', '&', '|', '+=', '-=', '*=', '/=', '%=', '^=', '&=',
                 '|=', '<<', '<<=', '>>', '>>=', '!=', '<', '>', '<=', '>=']
OPERATOR_EQ = '=='  # parsed as a property named 'operator' (finding C01-operator-eq)
PY_KEYWORDS = ['lambda', 'def', 'if', 'raise', 'del', 'import', 'return', 'elif', 'in', 'try',
               'and', 'else', 'is', 'while', 'as', 'except', 'with', 'assert', 'finally',
               'nonlocal', 'yield', 'break', 'for', 'not', 'from', 'or', 'continue', 'global',
               'pass', 'async', 'await', 'print']
IPYTHON = ["svg", "png", "jpeg", "html", "javascript", "markdown", "latex"]

PLAIN_IDS = ['Foo', 'Bar', 'Baz', 'Pose3', 'Cal3', 'Key', 'Values', 'Graph', 'Factor', 'Noise',
             'Rot2', 'Camera', 'Test', 'MyClass', 'Other', 'Wheel_Odometry', 'is_set_up']
ADVERSARIAL_IDS = ['constant', 'classy', 'int_', 'This2', 'T1', 'Tt', 'virtualize', 'statics',
                   'pairwise', 'enumerate', 'doubled', 'x', 'a', 'A', 'tT', 'TT', 'voidp',
                   'template_', 'typedefd', 'std_', 'operators', 'namespace_', 'ssize_t', 'dd',
                   'sizes', 'uint64', 'Vector3', 'Point2d', 'stringy']
NS_IDS = ['gtsam', 'ns1', 'ns2', 'inner', 'detail', 'a', 'b', 'geo', 'T', 'io', 'robot_nav']
TPARAMS = ['T', 'U', 'V', 'POSE', 'POINT', 'Tt', 'a', 'CAL', 'K']
ARG_IDS = ['x', 'y', 'z', 'key', 'value', 'pose', 'name', 'tol', 'n', 'a', 'b', 's', 'other',
           'T_', 'flag', 'serialized']
METHOD_IDS = ['f', 'g', 'get', 'set', 'compute', 'print', 'equals', 'dim', 'insert', 'at',
              'retract', 'localCoordinates', 'create', 'Identity', 'serialize', 'markdown',
              'templated', 'norm', 'values', 'a', 'T']


def iname(t):
    """Typename.instantiated_name of a ('tn', ns, name, insts) value"""
    return t[2] + ''.join(iname(i) for i in t[3])


class Profile:
    """size knobs; the defaults are the `quick` profile"""
    def __init__(self, **kw):
        self.max_decls = 6
        self.max_ns_depth = 3
        self.max_type_depth = 3
        self.max_members = 7
        self.max_args = 4
        self.max_tparams = 2
        self.max_tvalues = 3
        self.p_template = 0.35
        self.p_default = 0.3
        self.p_adversarial = 0.3
        self.p_keyword_name = 0.08
        self.matlab_safe = False     # defaults form a suffix, no raw-pointer quirks needed
        self.pybind_safe = True      # dunder methods restricted to the supported three
        self.allow_this = True
        self.scoped_uses = True
        self.p_scoped = 0.2
        self.special_types = True
        self.typedef_of_enumerated = False   # typedefs whose arguments repeat an enumerated instantiation (instantiator checks only)
        self.member_param_values = False     # class instantiation values spelled like a member's own template parameter
        self.fwd_of_defined = False          # forward declaration of a class defined in the same scope (parser checks only)
        self.p_keyword_arg = 0.0             # argument names that are Python keywords (legal C++ identifiers)
        self.qualified_typedefs = False      # typedef targets written with their namespace path (instantiator checks only)
        self.dup_values = False              # repeated entries in one instantiation list (instantiator checks only)
        self.same_name_values = False  # instantiation values with one unqualified name in two namespaces (instantiator checks only)
        self.layout_defaults = False   # defaults with inner runs of blanks / line breaks (parser checks only)
        self.__dict__.update(kw)


class Gen:
    def __init__(self, rng: random.Random, profile: Profile = None):
        self.r = rng
        self.p = profile or Profile()
        self.stats = {}

    def count(self, k):
        self.stats[k] = self.stats.get(k, 0) + 1

    # ---------- identifiers ----------
    def ident(self, pool=None):
        r = self.r
        if pool is not None and r.random() > self.p.p_adversarial:
            return r.choice(pool)
        if r.random() < self.p.p_adversarial:
            return r.choice(ADVERSARIAL_IDS)
        return r.choice(pool or PLAIN_IDS)

    def fresh(self, used, pool):
        for _ in range(50):
            x = self.ident(pool)
            if x not in used and x not in KEYWORDS:
                used.add(x)
                return x
        k = 0
        while True:
            x = '%s%d' % (self.r.choice(pool), k)
            if x not in used:
                used.add(x)
                return x
            k += 1

    # ---------- types ----------
    def path(self, tparams=()):
        r = self.r
        n = r.choice([0, 0, 0, 1, 1, 2])
        comps = [r.choice(NS_IDS) for _ in range(n)]
        return comps

    def typename(self, depth, tparams=(), allow_templ=True):
        """('tn', ns, name, insts) for template instantiation lists / typedef targets"""
        r = self.r
        if allow_templ and depth > 0 and r.random() < 0.3:
            n = r.randint(1, 2)
            return ('tn', self.path(), self.ident(PLAIN_IDS),
                    [self.typename(depth - 1, tparams) for _ in range(n)])
        if r.random() < 0.15:
            return ('tn', [], r.choice(['2', '3', '10', 'double', 'int', 'size_t']), [])
        return ('tn', self.path(), self.ident(PLAIN_IDS), [])

    def quals(self):
        r = self.r
        return (r.random() < 0.3, r.choice(['', '', '', '*', '@', '&']))

    def plain_type(self, tparams=(), this_ok=False, void_ok=False):
        """('ty', tn, const, ptr, basic)"""
        r = self.r
        c, p = self.quals()
        x = r.random()
        if tparams and x < 0.35:
            t = r.choice(tparams)
            if self.p.scoped_uses and r.random() < 0.06:
                # a qualified name whose first component merely BEGINS like the parameter (Tx::Value for T): not a use of T
                self.count('near_scoped_param')
                return ('ty', ('tn', [t + r.choice(['x', '2', '_ns'])], r.choice(['Value', 'Type', 'Foo']), []), c, p, False)
            if self.p.scoped_uses and r.random() < self.p.p_scoped:
                self.count('scoped_param')
                return ('ty', ('tn', [t], r.choice(['Value', 'Type', 'Jacobian', 'shared_ptr']), []), c, p, False)
            self.count('param_use')
            return ('ty', ('tn', [], t, []), c, p, False)
        if this_ok and self.p.allow_this and x < 0.42:
            self.count('this_use')
            if r.random() < 0.3:
                return ('ty', ('tn', ['This'], r.choice(['Value', 'Sub']), []), c, p, False)
            return ('ty', ('tn', [], 'This', []), c, p, False)
        if x < 0.65:
            b = r.choice(BASIC if void_ok else BASIC_NONVOID)
            return ('ty', ('tn', [], b, []), c, p, True)
        if self.p.special_types and x < 0.75:
            return ('ty', ('tn', r.choice([[], ['gtsam']]), r.choice(MATLAB_SPECIAL), []), c, p, False)
        return ('ty', ('tn', self.path(), self.ident(PLAIN_IDS), []), c, p, False)

    def templated_type(self, depth, tparams=(), this_ok=False):
        """('tt', ns, name, params, const, ptr)"""
        r = self.r
        c, p = self.quals()
        n = r.choice([1, 1, 2, 3])
        params = [self.any_type(depth - 1, tparams, this_ok) for _ in range(n)]
        name = r.choice(['vector', 'map', 'optional', 'Foo', 'BearingRange', 'FastVector', 'set'])
        ns = r.choice([[], ['std'], ['gtsam'], ['std', 'inner']])
        self.count('templated_type')
        return ('tt', ns, name, params, c, p)

    def any_type(self, depth, tparams=(), this_ok=False, void_ok=False):
        if depth > 0 and self.r.random() < 0.3:
            return self.templated_type(depth, tparams, this_ok)
        return self.plain_type(tparams, this_ok, void_ok)

    def ret(self, tparams=(), this_ok=False):
        r = self.r
        x = r.random()
        if x < 0.12:
            self.count('pair_return')
            return ('r2', r.choice(['pair', 'std::pair']),
                    self.plain_type(tparams, this_ok), self.plain_type(tparams, this_ok))
        if x < 0.3:
            return ('r1', ('ty', ('tn', [], 'void', []), False, '', True))
        return ('r1', self.any_type(self.p.max_type_depth, tparams, this_ok))

    # ---------- defaults ----------
    def default_text(self):
        r = self.r
        atoms = ['0', '1', '-1', '3.14', '1e-9', 'true', 'false', 'nullptr', '"hello"', "'c'",
                 '"a, b"', '"x;y"', '"(("', 'gtsam::Pose3()', 'Foo(1, 2)', '{1, 2, 3}', 'a[3]',
                 'std::vector<int>()', 'KeyFormatter()', 'gtsam::DefaultKeyFormatter', '-9.81',
                 'x+1', '"//"', 'Foo::Bar', 'std::map<int,double>{}', '1 + 2', 'a /*c*/ b',
                 '{{1,2},{3,4}}', '&g', '!f']
        if getattr(self.p, 'layout_defaults', False):
            # defaults whose own layout matters: runs of blanks, line breaks, blanks inside literals
            atoms = atoms + ['"    "', '"a,  b"', 'Foo(1,\n      2)', 'a  +  b', '" "', "' '", 'f( x )', '{ 1,  2 }', 'a\n  + b',
                             '"x  y"  "z"', 'std::pair<int,  int>()']
        self.count('default')
        return r.choice(atoms)

    def args(self, tparams=(), this_ok=False, max_args=None, dflt=True):
        r = self.r
        n = r.randint(0, self.p.max_args if max_args is None else max_args)
        used = set()
        out = []
        pool = self.__dict__.setdefault('sig_pool', [])
        if max_args is None and pool and r.random() < 0.2:
            # reuse an earlier signature (same types and names), defaults re-rolled below: overload-like
            # families whose members differ only in their defaults
            self.count('signature_reuse')
            out = [['arg', a[1], a[2], None] for a in r.choice(pool)]
            n = len(out)
        else:
            for _ in range(n):
                t = self.any_type(self.p.max_type_depth, tparams, this_ok)
                nm = None
                if self.p.p_keyword_arg and r.random() < self.p.p_keyword_arg:
                    kw = r.choice(['lambda', 'from', 'in', 'is', 'as', 'with', 'pass', 'None'])
                    if kw not in used:
                        nm = kw
                        used.add(kw)
                        self.count('argument_named_like_a_python_keyword')
                out.append(['arg', t, nm or self.fresh(used, ARG_IDS), None])
            if n and not tparams and not this_ok:
                pool.append([tuple(a) for a in out])
        if dflt and n and r.random() < self.p.p_default:
            if self.p.matlab_safe or r.random() < 0.8:
                k = r.randint(1, n)
                for a in out[n - k:]:
                    a[3] = self.default_text()
            else:
                for a in out:
                    if r.random() < 0.5:
                        a[3] = self.default_text()
            if tparams and any(x[3] is not None for x in out) and r.random() < 0.3:
                # a default value that spells a template parameter: as a call, inside a string, as a scoped name.  The
                # default is TEXT: no stage may rewrite it.
                t = r.choice(list(tparams))
                a = r.choice([x for x in out if x[3] is not None])
                a[3] = r.choice(['%s()' % t, '"%s"' % t, 'Modes::%s' % t, 'traits<%s>::One' % t, "'%s'" % t[0]])
                self.count('default_spelling_a_template_parameter')
        return [tuple(a) for a in out]

    # ---------- templates ----------
    def template(self, used_params=(), with_lists=None):
        r = self.r
        n = r.randint(1, self.p.max_tparams)
        names = []
        for _ in range(n):
            for _ in range(20):
                t = r.choice(TPARAMS)
                if t not in names and t not in used_params:
                    names.append(t)
                    break
        lists = []
        for _ in names:
            if with_lists is False or (with_lists is None and r.random() < 0.25):
                lists.append([])
            else:
                k = r.randint(1, self.p.max_tvalues)
                vals = []
                seen = set()
                for _ in range(k):
                    v = self.typename(2)
                    if self.p.dup_values and vals and r.random() < 0.25:
                        vals.append(r.choice(vals))          # the same value twice in one list: the product has it twice
                        self.count('duplicate_value_in_list')
                        continue
                    if self.p.same_name_values and vals and r.random() < 0.35:
                        # the same unqualified name in another namespace (ns1::A next to ns2::A)
                        b = r.choice(vals)
                        v = ('tn', list(b[1]) + [r.choice(['other', 'ns2', 'detail'])], b[2], b[3])
                        self.count('same_name_values')
                        vals.append(v)
                        continue
                    # (compared without case: instantiate_name upper-cases the first letter, so `tT` and `TT`, `a` and `A` meet too)
                    key = iname(v).upper()
                    # two values with the same instantiated name (a::X and b::X) give two classes of the same
                    # name and one output file (finding C10-instantiation-name-collision): kept apart here
                    if key not in seen:
                        seen.add(key)
                        vals.append(v)
                lists.append(vals)
        self.count('template')
        return ('tmpl', names, lists)

    def opt_template(self, used_params=(), with_lists=True):
        if self.r.random() < self.p.p_template * 0.6:
            return self.template(used_params, with_lists)
        return None

    # ---------- members ----------
    def method_name(self):
        r = self.r
        x = r.random()
        if x < self.p.p_keyword_name:
            self.count('keyword_named')
            return r.choice(PY_KEYWORDS)
        if x < self.p.p_keyword_name + 0.04:
            return r.choice(IPYTHON)
        return self.ident(METHOD_IDS)

    def member(self, cname, ctparams):
        r = self.r
        x = r.random()
        if x < 0.2:
            t = self.opt_template(ctparams)
            tp = tuple(ctparams) + (tuple(t[1]) if t else ())
            self.count('ctor')
            return ('ctor', t, cname, self.args(tp, True))
        names = self.__dict__.setdefault('class_member_names', {'method': [], 'static': []})
        if x < 0.5:
            t = self.opt_template(ctparams)
            tp = tuple(ctparams) + (tuple(t[1]) if t else ())
            self.count('method')
            if names['method'] and r.random() < 0.25:
                nm = r.choice(names['method'])      # an overload: same name, own signature and return shape
                self.count('method_overload')
            else:
                nm = self.method_name()
                while nm == cname:          # a member function with the class's own name is a constructor
                    nm = self.method_name()
            names['method'].append(nm)
            return ('method', t, nm, self.ret(tp, True), self.args(tp, True), r.random() < 0.5)
        if x < 0.65:
            t = self.opt_template(ctparams)
            tp = tuple(ctparams) + (tuple(t[1]) if t else ())
            self.count('static')
            if names['static'] and r.random() < 0.25:
                nm = r.choice(names['static'])
            else:
                nm = self.method_name()
                while nm == cname:
                    nm = self.method_name()
            names['static'].append(nm)
            return ('static', t, nm, self.ret(tp, True), self.args(tp, True))
        if x < 0.78:
            self.count('property')
            return ('var', self.any_type(2, ctparams, True), self.ident(ARG_IDS),
                    self.default_text() if r.random() < 0.2 else None)
        if x < 0.86:
            self.count('operator')
            k = r.random()
            rt = self.plain_type(ctparams, True)
            if k < 0.2:
                return ('op', r.choice(['+', '-']), ('r1', rt), [], True)
            if k < 0.35:
                return ('op', r.choice(['()', '[]']), self.ret(ctparams, True),
                        [('arg', self.any_type(1, ctparams, True), self.ident(ARG_IDS), None)], True)
            c, p = self.quals()
            at = ('ty', rt[1], c, p, rt[4])
            return ('op', r.choice(OPERATORS_BIN), ('r1', rt), [('arg', at, self.ident(ARG_IDS), None)], True)
        if x < 0.93:
            self.count('class_enum')
            return self.enum()
        self.count('dunder')
        k = r.choice(['len', 'iter', 'contains'])
        if k == 'contains':
            return ('dunder', k, [('arg', self.any_type(1, ctparams, True), self.ident(ARG_IDS), None)])
        return ('dunder', k, [])

    def enum(self, used_names=None):
        r = self.r
        used = set()
        n = r.randint(1, 4)
        name = self.ident(PLAIN_IDS + ['Kind', 'Color', 'Mode']) if used_names is None \
            else self.fresh(used_names, PLAIN_IDS + ['Kind', 'Color', 'Mode'])
        return ('enum', r.choice(['enum', 'enum class', 'enum struct']), name,
                [self.fresh(used, ['A', 'B', 'Red', 'Green', 'Dog', 'Cat', 'x', 'NONE', 'None', 'pass', 'True']) for _ in range(n)])

    def klass(self, used_names):
        r = self.r
        t = self.template() if r.random() < self.p.p_template else None
        tp = tuple(t[1]) if t else ()
        name = None
        if used_names and r.random() < 0.2:
            # a name that extends, or is a proper prefix of, a name already declared in this scope (Pose / Pose3 / Pose_2);
            # never by a suffix that an instantiation value could supply: f<Graph> is named fGraph and would share the file
            # of a class fGraph (finding C10-class-function-name-collision)
            b = r.choice(sorted(used_names))
            cand = b + r.choice(['3', '2d', 'b', '_2']) if r.random() < 0.6 or len(b) < 3 else b[:r.randint(2, len(b) - 1)]
            if cand not in used_names and cand not in KEYWORDS and cand[0].isalpha():
                name = cand
                used_names.add(cand)
                self.count('class_name_prefix_of_another')
        if name is None:
            name = self.fresh(used_names, PLAIN_IDS)
        base = None
        x = r.random()
        if x < 0.2:
            base = ('bn', ('tn', self.path(), self.ident(PLAIN_IDS), []))
        elif x < 0.3:
            base = ('bt', self.templated_type(2, tp)[:4] + (False, ''))
        self.class_member_names = {'method': [], 'static': []}
        members = [self.member(name, tp) for _ in range(r.randint(0, self.p.max_members))]
        if r.random() < 0.12:
            # the unary and the binary form of one operator symbol in one class (operator-() and operator-(T)), or two
            # call operators: distinct declarations that share their symbol
            sym = r.choice(['+', '-', '-', '()'])
            rt = self.plain_type(tp, True)
            c, p = self.quals()
            at = ('ty', rt[1], c, p, rt[4])
            if sym == '()':
                # (an operator takes at most one argument in this dialect)
                members += [('op', '()', self.ret(tp, True), [('arg', self.any_type(1, tp, True), 'i', None)], True),
                            ('op', '()', self.ret(tp, True), [('arg', self.any_type(1, tp, True), 'j', None)], True)]
            else:
                pair = [('op', sym, ('r1', rt), [], True), ('op', sym, ('r1', rt), [('arg', at, 'rhs', None)], True)]
                r.shuffle(pair)
                members += pair
            self.count('operators_sharing_a_symbol')
        if self.p.member_param_values and t is not None:
            inner = [n for m in members if m[0] in ('ctor', 'method', 'static') and m[1] is not None for n in m[1][1]]
            lists = [l for l in t[2] if l]
            if inner and lists and r.random() < 0.5:
                u = r.choice(inner)
                v = r.choice([('tn', [], u, []), ('tn', ['demo'], u, []), ('tn', ['std'], 'vector', [('tn', [], u, [])])])
                l = r.choice(lists)
                if iname(v) not in [iname(x) for x in l]:
                    l.append(v)
                    self.count('class_value_spelled_like_member_parameter')
        self.count('class')
        return ('class', t, r.random() < 0.25, name, base, members)

    def function(self, used_names):
        r = self.r
        t = self.template() if r.random() < self.p.p_template else None
        tp = tuple(t[1]) if t else ()
        self.count('function')
        scope = self.__dict__.setdefault('scope_funs', [[]])[-1]
        if scope and r.random() < 0.3:
            name = r.choice(scope)          # an overload of an earlier function of this scope, adjacent or not
            self.count('function_overload')
        else:
            name = self.method_name() if r.random() < 0.3 else self.fresh(set(), METHOD_IDS)
            # a function and a class / enum of one namespace with the same name would share one MATLAB file
            for _ in range(20):
                if name not in used_names:
                    break
                name = self.fresh(set(), METHOD_IDS)
            used_names.add(name)
        scope.append(name)
        return ('fun', t, name, self.ret(tp), self.args(tp))

    def decl(self, depth, used_names, templates_here):
        r = self.r
        x = r.random()
        if x < 0.35:
            c = self.klass(used_names)
            if c[1] is not None:
                templates_here.append(('class', c))
            return c
        if x < 0.5:
            f = self.function(used_names)
            if f[1] is not None:
                templates_here.append(('fun', f))
            return f
        if x < 0.58 and depth < self.p.max_ns_depth:
            self.count('namespace')
            nm = r.choice(NS_IDS)
            stack = self.__dict__.setdefault('ns_path', [])
            stack.append(nm)
            try:
                body = self.content(depth + 1)
            finally:
                stack.pop()
            return ('ns', nm, body)
        if x < 0.66:
            self.count('enum')
            return self.enum(used_names)
        if x < 0.74:
            self.count('variable')
            return ('var', self.any_type(2), self.ident(ARG_IDS + ['kGravity', 'kMax']),
                    self.default_text() if r.random() < 0.4 else None)
        if x < 0.8:
            self.count('include')
            return ('include', r.choice(['gtsam/geometry/Pose3.h', 'vector', 'a b.h', 'x/y/z.hpp']))
        if x < 0.88:
            self.count('fwd')
            parent = ('tn', self.path(), self.ident(PLAIN_IDS), []) if r.random() < 0.3 else None
            return ('fwd', r.random() < 0.3, ('tn', self.path(), self.fresh(used_names, PLAIN_IDS), []), parent)
        return None  # typedef decided by the caller (needs a target)

    def content(self, depth):
        self.__dict__.setdefault('scope_funs', [[]]).append([])
        try:
            return self._content(depth)
        finally:
            self.scope_funs.pop()

    def _content(self, depth):
        r = self.r
        used = set()
        templates_here = []
        out = []
        pending_typedefs = []
        n = r.randint(0 if depth else 1, self.p.max_decls)
        for _ in range(n):
            d = self.decl(depth, used, templates_here)
            if d is None:
                pending_typedefs.append(len(out))
                out.append(None)
            else:
                out.append(d)
        # fill typedef slots with targets among the templates / forward declarations of this scope
        fwds = [d for d in out if d and d[0] == 'fwd' and not d[2][1]]
        res = []
        for i, d in enumerate(out):
            if d is not None:
                res.append(d)
                continue
            cands = templates_here + [('fwd', f) for f in fwds]
            if not cands:
                continue
            kind, tgt = r.choice(cands)
            self.count('typedef_' + kind)
            if kind == 'fwd':
                name = tgt[2][2]
                nargs = r.randint(1, 2)
            else:
                name = tgt[3] if kind == 'class' else tgt[2]
                nargs = len(tgt[1][1])
            params = [self.plain_type() if r.random() < 0.7 else self.templated_type(1) for _ in range(nargs)]
            if self.p.typedef_of_enumerated and kind != 'fwd' and r.random() < 0.4:
                # the arguments of one of the template's own enumerated instantiations
                lists = tgt[1][2]
                simple = [[v for v in l if not v[3] and v[2][0].isalpha()] for l in lists]
                if lists and all(simple):
                    params = []
                    for l in simple:
                        v = r.choice(l)
                        params.append(('ty', ('tn', list(v[1]), v[2], []), False, '', v[2] in BASIC and not v[1]))
                    self.count('typedef_of_enumerated')
            qual = []
            if self.p.qualified_typedefs and kind != 'fwd' and r.random() < 0.6:
                qual = list(self.__dict__.get('ns_path', []))       # the target spelled with its full namespace path
                if qual:
                    self.count('typedef_target_qualified_%d' % min(len(qual), 3))
            res.append(('typedef', ('tt', qual, name, params, False, ''), self.fresh(used, PLAIN_IDS + ['Alias', 'TD'])))
        if self.p.fwd_of_defined:
            # `class X;` next to the definition of X in the same scope (before or after it)
            for c in [d for d in res if d[0] == 'class']:
                if r.random() < 0.3:
                    res.insert(r.randrange(len(res) + 1), ('fwd', c[2] and r.random() < 0.5, ('tn', [], c[3], []), None))
                    self.count('fwd_of_defined_class')
        return res

    def module(self):
        return self.content(0)


# ---------------- abs: CST -> expected dump of the parse tree ----------------
def a_tn(t):
    return ['tn', list(t[1]), t[2], [a_tn(i) for i in t[3]]]


def a_ty(t):
    if t[0] == 'ty':
        return ['ty', a_tn(t[1]), t[2], t[3], t[4]]
    return ['tt', list(t[1]), t[2], [a_ty(p) for p in t[3]], t[4], t[5]]


def ty_typename(t):
    if t[0] == 'ty':
        return t[1]
    return ('tn', t[1], t[2], [ty_typename(p) for p in t[3]])


def a_ret(r):
    if r[0] == 'r1':
        return ['r1', a_ty(r[1])]
    return ['r2', a_ty(r[2]), a_ty(r[3])]


def a_args(l):
    return [['arg', a_ty(a[1]), a[2], [] if a[3] is None else [a[3]]] for a in l]


def a_tmpl(t):
    if t is None:
        return []
    return [['tmpl', list(t[1]), [[a_tn(i) for i in l] for l in t[2]]]]


def a_enum(e):
    return ['enum', e[2], list(e[3])]


def a_var(v):
    return ['var', a_ty(v[1]), v[2], [] if v[3] is None else [v[3]]]


def a_class(c):
    _, t, virt, name, base, members = c
    by = lambda k: [m for m in members if m[0] == k]
    b = []
    if base is not None:
        b = [['bn', a_tn(base[1])]] if base[0] == 'bn' else [['bt', a_ty(base[1])]]
    return ['class', a_tmpl(t), virt, name, b,
            [['ctor', a_tmpl(m[1]), m[2], a_args(m[3])] for m in by('ctor')],
            [['method', a_tmpl(m[1]), m[2], a_ret(m[3]), a_args(m[4]), m[5]] for m in by('method')],
            [['static', a_tmpl(m[1]), m[2], a_ret(m[3]), a_args(m[4])] for m in by('static')],
            [['dunder', m[1], a_args(m[2])] for m in by('dunder')],
            [a_var(m) for m in by('var')],
            [['op', m[1], a_ret(m[2]), a_args(m[3]), m[4]] for m in by('op')],
            [a_enum(m) for m in by('enum')]]


def a_decl(d):
    k = d[0]
    if k == 'class':
        return a_class(d)
    if k == 'fun':
        return ['fun', a_tmpl(d[1]), d[2], a_ret(d[3]), a_args(d[4])]
    if k == 'typedef':
        return ['typedef', a_tn(ty_typename(d[1])), d[2]]
    if k == 'fwd':
        return ['fwd', d[1], a_tn(d[2]), [] if d[3] is None else [a_tn(d[3])]]
    if k == 'include':
        return ['include', d[1]]
    if k == 'enum':
        return a_enum(d)
    if k == 'var':
        return a_var(d)
    if k == 'ns':
        return ['ns', d[1], [a_decl(x) for x in d[2]]]
    raise ValueError(k)


def abs_module(m):
    return [a_decl(d) for d in m]


# ---------------- render: CST -> token list ----------------
# token = (kind, text): 'w' word-like (needs a separator from an adjacent 'w'), 'p' punctuation,
# 'raw' verbatim text that must not be split or padded on the inside
def t_path(ns, name):
    out = []
    for n in ns:
        out += [('w', n), ('p', '::')]
    out.append(('w', name))
    return out


def t_tn(t):
    out = t_path(t[1], t[2])
    if t[3]:
        out.append(('p', '<'))
        for i, x in enumerate(t[3]):
            if i:
                out.append(('p', ','))
            out += t_tn(x)
        out.append(('p', '>'))
    return out


def t_ty(t):
    out = []
    if t[0] == 'ty':
        if t[2]:
            out.append(('w', 'const'))
        out += t_path(t[1][1], t[1][2])
        if t[3]:
            out.append(('p', t[3]))
        return out
    if t[4]:
        out.append(('w', 'const'))
    out += t_path(t[1], t[2])
    out.append(('p', '<'))
    for i, x in enumerate(t[3]):
        if i:
            out.append(('p', ','))
        out += t_ty(x)
    out.append(('p', '>'))
    if t[5]:
        out.append(('p', t[5]))
    return out


def t_ret(r):
    if r[0] == 'r1':
        return t_ty(r[1])
    # `std::` is its own literal in the grammar: layout may separate it from `pair`
    head = [('p', 'std::'), ('w', 'pair')] if r[1] == 'std::pair' else [('w', r[1])]
    return head + [('p', '<')] + t_ty(r[2]) + [('p', ',')] + t_ty(r[3]) + [('p', '>')]


def t_args(l):
    out = [('p', '(')]
    for i, a in enumerate(l):
        if i:
            out.append(('p', ','))
        out += t_ty(a[1]) + [('w', a[2])]
        if a[3] is not None:
            out += [('p', '='), ('raw', a[3])]
    out.append(('p', ')'))
    return out


def t_tmpl(t):
    if t is None:
        return []
    out = [('w', 'template'), ('p', '<')]
    for i, (n, l) in enumerate(zip(t[1], t[2])):
        if i:
            out.append(('p', ','))
        out.append(('w', n))
        if l:
            out += [('p', '='), ('p', '{')]
            for j, x in enumerate(l):
                if j:
                    out.append(('p', ','))
                out += t_tn(x)
            out.append(('p', '}'))
    out.append(('p', '>'))
    return out


def t_enum(e):
    out = [('w', e[1]), ('w', e[2]), ('p', '{')]
    for i, x in enumerate(e[3]):
        if i:
            out.append(('p', ','))
        out.append(('w', x))
    return out + [('p', '}'), ('p', ';')]


def t_var(v):
    out = t_ty(v[1]) + [('w', v[2])]
    if v[3] is not None:
        out += [('p', '='), ('raw', v[3])]
    return out + [('p', ';')]


def t_member(m):
    k = m[0]
    if k == 'ctor':
        return t_tmpl(m[1]) + [('w', m[2])] + t_args(m[3]) + [('p', ';')]
    if k == 'method':
        return t_tmpl(m[1]) + t_ret(m[3]) + [('w', m[2])] + t_args(m[4]) + \
            ([('w', 'const')] if m[5] else []) + [('p', ';')]
    if k == 'static':
        return t_tmpl(m[1]) + [('w', 'static')] + t_ret(m[3]) + [('w', m[2])] + t_args(m[4]) + [('p', ';')]
    if k == 'var':
        return t_var(m)
    if k == 'op':
        return t_ret(m[2]) + [('w', 'operator'), ('p', m[1])] + t_args(m[3]) + [('w', 'const'), ('p', ';')]
    if k == 'enum':
        return t_enum(m)
    if k == 'dunder':
        return [('w', '__%s__' % m[1])] + t_args(m[2]) + [('p', ';')]
    raise ValueError(k)


def t_decl(d):
    k = d[0]
    if k == 'class':
        _, t, virt, name, base, members = d
        out = t_tmpl(t) + ([('w', 'virtual')] if virt else []) + [('w', 'class'), ('w', name)]
        if base is not None:
            out.append(('p', ':'))
            out += t_tn(base[1]) if base[0] == 'bn' else t_ty(base[1])
        out.append(('p', '{'))
        for m in members:
            out += t_member(m)
        return out + [('p', '}'), ('p', ';')]
    if k == 'fun':
        return t_tmpl(d[1]) + t_ret(d[3]) + [('w', d[2])] + t_args(d[4]) + [('p', ';')]
    if k == 'typedef':
        return [('w', 'typedef')] + t_ty(d[1]) + [('w', d[2]), ('p', ';')]
    if k == 'fwd':
        out = ([('w', 'virtual')] if d[1] else []) + [('w', 'class')] + t_path(d[2][1], d[2][2])
        if d[3] is not None:
            out += [('p', ':')] + t_path(d[3][1], d[3][2])
        return out + [('p', ';')]
    if k == 'include':
        return [('w', '#include'), ('raw', '<%s>' % d[1])]
    if k == 'enum':
        return t_enum(d)
    if k == 'var':
        return t_var(d)
    if k == 'ns':
        out = [('w', 'namespace'), ('w', d[1]), ('p', '{')]
        for x in d[2]:
            out += t_decl(x)
        return out + [('p', '}')]
    raise ValueError(k)


def tokens(m):
    out = []
    for d in m:
        out += t_decl(d)
    return out


# ---------------- layouts ----------------
COMMENT_BODIES = ['', ' x ', ' }; ', ' class A {}; ', ' " ', " ' ", ' // nested ', ' /* ', ' template<T> ',
                  ' namespace { ', ' ; ; ', ' é ü ', ' \\ ', ' = 3 ', ' ) ( ', ' @ & * ']


def gap(r: random.Random, style: str, need: bool):
    """text placed between two tokens; `need` = at least one separator required"""
    if style == 'min':
        return ' ' if need else ''
    if style == 'plain':
        return ' '
    if style == 'lines':
        return r.choice([' ', '\n', '\n  ', ' ', '\t'])
    if style == 'crlf':
        return r.choice([' ', '\r\n', '\r\n\t'])
    # 'comments': any mix of blanks and comments
    parts = []
    for _ in range(r.choice([0, 1, 1, 2, 3])):
        k = r.random()
        if k < 0.4:
            parts.append(r.choice([' ', '  ', '\n', '\t', '\r\n']))
        elif k < 0.7:
            parts.append('/*' + r.choice(COMMENT_BODIES).replace('*/', '') + '*/')
        else:
            parts.append('//' + r.choice(COMMENT_BODIES).replace('\n', ' ') + '\n')
    s = ''.join(parts)
    if need and s == '':
        s = ' '
    return s


STYLES = ['plain', 'min', 'lines', 'crlf', 'comments']


def text(toks, r: random.Random = None, style: str = 'plain'):
    r = r or random.Random(0)
    out = []
    prev = None
    for k, t in toks:
        if prev is not None:
            # a raw default must be separated from '=' by nothing special; '::' stays glued when it
            # belongs to the single literal 'std::' of a pair return (rendered as one word)
            need = (prev[0] == 'w' and k == 'w') or (prev[0] == 'w' and k == 'raw' and not t.startswith('<')) \
                or (prev[0] == 'raw' and k == 'w') \
                or (prev[0] != 'raw' and k != 'raw' and (prev[1][-1].isalnum() or prev[1][-1] == '_') and (t[0].isalnum() or t[0] == '_'))
            if prev[0] == 'raw' and not prev[1].startswith('<') and style == 'comments':
                out.append(r.choice(['', ' ', '\n', '\t ']))
            else:
                g = gap(r, style, need)
                # a token ending in '/' (operator/ and operator/=... end in '=' but '/' alone does) directly followed by a
                # comment would itself spell a comment opener ('//' or '/*'): that is a different token sequence
                if g[:1] == '/' and prev[1].endswith('/'):
                    g = ' ' + g
                out.append(g)
        out.append(t)
        prev = (k, t)
    out.append(gap(r, style, False))
    return ''.join(out)

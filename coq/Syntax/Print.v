(* Printing functions of the implementation's node classes (to_cpp, instantiated_name, ...). *)
From Coq Require Import String Ascii List Bool Arith.
From Wrap Require Import Base.Str Base.ListX Syntax.Ast.
Import ListNotations.
Open Scope string_scope.

Definition ns_prefix (ns : list string) : string :=
  match ns with [] => "" | _ => join "::" ns ++ "::" end.

(* Typename.to_cpp / __repr__ / str() *)
Fixpoint tn_cpp (t : typename) : string :=
  match t with
  | Typename ns n insts =>
    let nstr := match n with NStr s => s | NObj t' => tn_cpp t' end in
    let cpp_name := match insts with
                    | [] => nstr
                    | _ => nstr ++ "<" ++ join ", " (map tn_cpp insts) ++ ">"
                    end in
    ns_prefix ns ++ cpp_name
  end.
Definition nm_str (n : nm) : string := match n with NStr s => s | NObj t => tn_cpp t end.
Definition tn_ns (t : typename) : list string := match t with Typename ns _ _ => ns end.
Definition tn_name (t : typename) : nm := match t with Typename _ n _ => n end.
Definition tn_insts (t : typename) : list typename := match t with Typename _ _ i => i end.
Definition tn_sname (t : typename) : string := nm_str (tn_name t).

(* Typename.instantiated_name *)
Fixpoint tn_iname (t : typename) : string :=
  match t with
  | Typename _ n insts => nm_str n ++ String.concat "" (map tn_iname insts)
  end.
(* Typename.qualified_name *)
Definition tn_qual (t : typename) : string :=
  match t with Typename ns n _ => join "::" (ns ++ [nm_str n]) end.

(* typename attribute of Type / TemplatedType *)
Fixpoint ty_typename (t : ty) : typename :=
  match t with
  | TPlain tn _ _ _ => tn
  | TTempl ns n ps _ _ => Typename ns n (map ty_typename ps)
  end.

Definition wrap_ptr (p : ptrk) (s : string) : string :=
  match p with
  | PShared => "std::shared_ptr<" ++ s ++ ">"
  | PRaw => s ++ "*"
  | PRef => s ++ "&"
  | PNone => s
  end.
Definition const_pre (c : bool) : string := if c then "const " else "".

(* Type.to_cpp / TemplatedType.to_cpp *)
Fixpoint ty_cpp (t : ty) : string :=
  match t with
  | TPlain tn c p _ => const_pre c ++ wrap_ptr p (tn_cpp tn)
  | TTempl ns n ps c p =>
    const_pre c ++ wrap_ptr p (join "::" (ns ++ [nm_str n]) ++ "<" ++ join ", " (map ty_cpp ps) ++ ">")
  end.
Definition ty_const (t : ty) : bool := match t with TPlain _ c _ _ => c | TTempl _ _ _ c _ => c end.
Definition ty_ptr (t : ty) : ptrk := match t with TPlain _ _ p _ => p | TTempl _ _ _ _ p => p end.

(* ReturnType.to_cpp, is_void *)
Definition ret_cpp (r : ret) : string :=
  match r with
  | RSingle t => ty_cpp t
  | RPair a b => "std::pair<" ++ ty_cpp a ++ "," ++ ty_cpp b ++ ">"
  end.
Definition ret_type1 (r : ret) : ty := match r with RSingle t => t | RPair a _ => a end.
Definition ret_is_void (r : ret) : bool :=
  match r with
  | RSingle t => String.eqb (tn_sname (ty_typename t)) "void"
  | RPair _ _ => false
  end.

Definition arg_names (l : list arg) : list string := map a_name l.
Definition args_cpp (l : list arg) : list string := map (fun a => ty_cpp (a_ty a)) l.

(* C11 / C18 (handles): ownership protocol of a generated MEX gateway - heap cells (`new shared_ptr<T>`),
   collectors, MATLAB proxy objects.  A cell records its static class, the C++ object it points to,
   whether it sits in its class's collector and which MATLAB object holds it.  Definitions only. *)
From Coq Require Import String List Bool Arith.
From Wrap Require Import Base.Str Base.ListX.
Import ListNotations.
Open Scope string_scope.
Open Scope list_scope.

Record cinfo := { ci_name : string; ci_base : option string; ci_virtual : bool }.

Record cell := { c_addr : nat; c_class : string; c_obj : nat; c_registered : bool; c_owner : option nat }.

Record gstate := {
  g_next : nat;                          (* fresh addresses / object ids *)
  g_cells : list cell;                   (* live heap cells *)
  g_objs : list (nat * string);          (* C++ objects ever created: id -> dynamic class *)
  g_mobjs : list (nat * list nat);       (* MATLAB objects: id -> cell address per inheritance level, derived first *)
  g_stale : list (nat * list nat);       (* MATLAB objects that survived an unload of the module *)
  g_freed : list nat                     (* every address `delete` was applied to, in order *)
}.
Definition ginit : gstate :=
  {| g_next := 0; g_cells := []; g_objs := []; g_mobjs := []; g_stale := []; g_freed := [] |}.

Inductive gop :=
| Construct (m : nat) (cls : string)          (* obj = Class(args): constructor routine, then the base-class chain *)
| Receive (m : nat) (cls : string) (o : nat) (virt : bool)
      (* a call returned the existing object o as shared_ptr<cls>: wrap_shared_ptr(.., "cls", virt); the
         generated call site fixes virt (the harness reads it from the routine text) *)
| Make (m : nat) (cls dyn : string) (virt : bool)
      (* a call returned a fresh object of dynamic class dyn as shared_ptr<cls> *)
| Delete (m : nat)                            (* MATLAB destroys the proxy: deconstructor routine per level *)
| Unload.                                     (* clear mex: _deleteAllObjects *)

Section Gateway.
  Variable classes : list cinfo.

  Definition find_class (n : string) : option cinfo := find (fun c => String.eqb (ci_name c) n) classes.

  (* the inheritance chain, derived first *)
  Fixpoint chain (fuel : nat) (n : string) : list string :=
    match fuel with
    | O => [n]
    | S f => match find_class n with
             | Some c => match ci_base c with Some b => n :: chain f b | None => [n] end
             | None => [n]
             end
    end.
  Definition chain_of (n : string) : list string := chain (length classes) n.

  Definition is_virtual (n : string) : bool :=
    match find_class n with Some c => ci_virtual c | None => false end.

  (* one cell per level, consecutive fresh addresses, all registered in their collectors, all held by m *)
  Fixpoint level_cells (a : nat) (o m : nat) (levels : list string) : list cell :=
    match levels with
    | [] => []
    | l :: r => {| c_addr := a; c_class := l; c_obj := o; c_registered := true; c_owner := Some m |}
                  :: level_cells (S a) o m r
    end.

  Fixpoint assoc_nat {A} (k : nat) (l : list (nat * A)) : option A :=
    match l with [] => None | (a, v) :: r => if Nat.eqb a k then Some v else assoc_nat k r end.
  Fixpoint remove_key {A} (k : nat) (l : list (nat * A)) : list (nat * A) :=
    match l with [] => [] | (a, v) :: r => if Nat.eqb a k then remove_key k r else (a, v) :: remove_key k r end.
  Definition mem_nat (x : nat) (l : list nat) : bool := existsb (Nat.eqb x) l.

  Definition attach (s : gstate) (m o : nat) (levels : list string) (objs : list (nat * string)) (next : nat) : gstate :=
    let cs := level_cells next o m levels in
    {| g_next := next + length levels; g_cells := g_cells s ++ cs; g_objs := objs;
       g_mobjs := (m, map c_addr cs) :: g_mobjs s; g_stale := g_stale s; g_freed := g_freed s |}.

  Definition step (s : gstate) (op : gop) : gstate :=
    match op with
    | Construct m cls =>
      let o := g_next s in
      attach s m o (chain_of cls) ((o, cls) :: g_objs s) (S o)
    | Receive m cls o virt =>
      (* with isVirtual the proxy is re-created from the object's dynamic type (RTTI registry, upcastFromVoid) *)
      let start := if virt then match assoc_nat o (g_objs s) with Some d => d | None => cls end else cls in
      attach s m o (chain_of start) (g_objs s) (g_next s)
    | Make m cls dyn virt =>
      let o := g_next s in
      attach s m o (chain_of (if virt then dyn else cls)) ((o, dyn) :: g_objs s) (S o)
    | Delete m =>
      match assoc_nat m (g_mobjs s) with
      | Some addrs =>
        {| g_next := g_next s; g_cells := filter (fun c => negb (mem_nat (c_addr c) addrs)) (g_cells s);
           g_objs := g_objs s; g_mobjs := remove_key m (g_mobjs s); g_stale := g_stale s;
           g_freed := g_freed s ++ addrs |}
      | None =>
        match assoc_nat m (g_stale s) with
        | Some addrs =>          (* `delete self` runs although the cell is not in the collector any more *)
          {| g_next := g_next s; g_cells := g_cells s; g_objs := g_objs s; g_mobjs := g_mobjs s;
             g_stale := remove_key m (g_stale s); g_freed := g_freed s ++ addrs |}
        | None => s
        end
      end
    | Unload =>
      {| g_next := g_next s;
         g_cells := filter (fun c => negb (c_registered c)) (g_cells s);
         g_objs := g_objs s; g_mobjs := []; g_stale := g_stale s ++ g_mobjs s;
         g_freed := g_freed s ++ map c_addr (filter c_registered (g_cells s)) |}
    end.

  Definition run (h : list gop) : gstate := fold_left step h ginit.

  (* observations the compiled gateway is compared on *)
  Definition collector_size (s : gstate) (cls : string) : nat :=
    length (filter (fun c => andb (c_registered c) (String.eqb (c_class c) cls)) (g_cells s)).
  Definition alive (s : gstate) (o : nat) : bool := existsb (fun c => Nat.eqb (c_obj c) o) (g_cells s).
  Definition live_of_class (s : gstate) (cls : string) : nat :=
    length (filter (fun od => andb (String.eqb (snd od) cls) (alive s (fst od))) (g_objs s)).
  Fixpoint has_dup (l : list nat) : bool :=
    match l with [] => false | x :: r => orb (mem_nat x r) (has_dup r) end.
  Definition double_free (s : gstate) : bool := has_dup (g_freed s).

  (* a MATLAB session may delete what it holds; deleting after an unload is the recorded defect *)
  Definition op_ok (s : gstate) (op : gop) : bool :=
    match op with
    | Construct m _ => andb (negb (mem_nat m (map fst (g_mobjs s)))) (negb (mem_nat m (map fst (g_stale s))))
    | Make m _ _ _ => andb (negb (mem_nat m (map fst (g_mobjs s)))) (negb (mem_nat m (map fst (g_stale s))))
    | Receive m _ o _ => andb (andb (negb (mem_nat m (map fst (g_mobjs s)))) (negb (mem_nat m (map fst (g_stale s))))) (alive s o)
    | Delete m => mem_nat m (map fst (g_mobjs s))
    | Unload => true
    end.
  Fixpoint protocol (s : gstate) (h : list gop) : bool :=
    match h with [] => true | op :: r => andb (op_ok s op) (protocol (step s op) r) end.
End Gateway.

#pragma once
#include <vector>
namespace gtsam {
class Matrix {
 public:
  Matrix() : m_(0), n_(0) {}
  Matrix(int m, int n) : m_(m), n_(n), d_((size_t)m * n, 0.0) {}
  int rows() const { return m_; }
  int cols() const { return n_; }
  double &operator()(int i, int j) { return d_[(size_t)i * n_ + j]; }          // row-major storage on purpose
  const double &operator()(int i, int j) const { return d_[(size_t)i * n_ + j]; }
 private:
  int m_, n_;
  std::vector<double> d_;
};
}

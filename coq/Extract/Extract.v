From Coq Require Import ExtrOcamlBasic ExtrOcamlNativeString.
From Wrap Require Import Run.
Extraction "model.ml" run.

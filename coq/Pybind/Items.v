(* Binding records: the structured content of a generated pybind11 translation unit. *)
From Coq Require Import String List Bool.
From Wrap Require Import Syntax.Ast.
Import ListNotations.

Definition pyarg := (string * option string)%type.       (* py::arg("name") [= default] *)
Definition lparam := (string * string)%type.             (* (C++ type, name) of a lambda parameter *)

Inductive opkind := OpGetItem | OpCall | OpUnary (sym : string) | OpBinary (sym : string).

Inductive member : Type :=
| MInit (types : list string) (pyargs : list pyarg)
| MDef (static : bool) (py_name : string)
       (self : option string)            (* Some cpp_class: instance call through `self->` *)
       (params : list lparam)
       (returns : bool)                  (* `return` present *)
       (caller : string)                 (* "self->" or "Class::" *)
       (callee : string)                 (* method spelling incl. explicit template arguments *)
       (call_args : list string)
       (pyargs : list pyarg)
       (doc : option string)             (* escaped literal body when XML is given *)
       (redirect : bool)                 (* print: stdout redirected *)
| MRepr (cpp_class : string) (params : list lparam) (method_name : string)
        (call_args : list string) (pyargs : list pyarg)
| MSerialize (cpp_class : string)
| MDunder (py_method : string) (cpp_class : string) (params : list lparam) (body : string)
          (pyargs : list pyarg)
| MProp (readonly : bool) (name cpp_class : string)
| MOp (k : opkind) (cpp_class : string).

Record benum := { be_module : string; be_cpp : string; be_name : string; be_values : list string }.

Inductive bitem : Type :=
| BSub (var parent name : string)
| BClass (module_var cpp_class py_name : string) (parent : option string)
         (instance : option string) (members : list member)
| BClassEnum (e : benum)         (* enum of a class, emitted right after the class *)
| BDecl (module_var cpp_class py_name : string)
| BEnum (e : benum)
| BAttr (module_var name ns value : string)
| BFun (module_var py_name : string) (params : list lparam) (returns : bool)
       (caller callee : string) (call_args : list string) (pyargs : list pyarg).

Record cfg := {
  top : list string;          (* top_module_namespaces, with the leading "" *)
  ignore : list string;       (* ignore_classes *)
  boost : bool;               (* use_boost_serialization *)
}.

Record pquirks := {
  q_ignored_enums : bool;     (* enums of an ignored class are still emitted *)
  q_values_insert : bool;     (* gtsam::Values::insert(size_t, ...) bound twice *)
  q_keywords_table : bool;    (* only the names in the wrapper's own table are escaped (async, await missing) *)
  q_var_default_ns : bool;    (* a namespaced variable with an initialiser is emitted as ns::<initialiser> *)
}.
Definition impl_pquirks : pquirks :=
  {| q_ignored_enums := true; q_values_insert := true; q_keywords_table := true; q_var_default_ns := true |}.

(* C11: ownership invariant of the gateway protocol. *)
From Coq Require Import String List Bool Arith Lia.
From Wrap Require Import Base.Str Base.ListX Runtime.Gateway.
Import ListNotations.
Open Scope list_scope.

Definition addrs (s : gstate) : list nat := map c_addr (g_cells s).

Record Inv (s : gstate) : Prop := {
  i_nodup : NoDup (addrs s);
  i_cells : Forall (fun c => c_registered c = true /\ c_addr c < g_next s) (g_cells s);
  i_freed_nodup : NoDup (g_freed s);
  i_freed : forall a, In a (g_freed s) -> a < g_next s /\ ~ In a (addrs s);
  i_keys : NoDup (map fst (g_mobjs s));
  i_held : forall m l, In (m, l) (g_mobjs s) -> NoDup l /\ forall a, In a l -> In a (addrs s);
  i_disj : forall m1 l1 m2 l2, In (m1, l1) (g_mobjs s) -> In (m2, l2) (g_mobjs s) -> m1 <> m2 ->
                               forall a, In a l1 -> ~ In a l2;
  i_owned : forall a, In a (addrs s) -> exists m l, In (m, l) (g_mobjs s) /\ In a l
}.

Lemma NoDup_app_intro2 : forall (A : Type) (a b : list A),
  NoDup a -> NoDup b -> (forall x, In x a -> In x b -> False) -> NoDup (a ++ b).
Proof.
  intros A a b Ha Hb Hd. induction Ha as [|x a Hx Ha IH]; [exact Hb|].
  cbn [app]. constructor.
  - intros Hin. apply in_app_or in Hin. destruct Hin as [Hin|Hin]; [contradiction|].
    apply (Hd x); [left; reflexivity | exact Hin].
  - apply IH. intros y Hy1 Hy2. apply (Hd y); [right; exact Hy1 | exact Hy2].
Qed.

Lemma level_addrs : forall a o m ls, map c_addr (level_cells a o m ls) = seq a (length ls).
Proof. intros a o m ls. revert a. induction ls as [|l r IH]; intros a; cbn; [reflexivity | rewrite IH; reflexivity]. Qed.

Lemma level_props : forall a o m ls c, In c (level_cells a o m ls) ->
  c_registered c = true /\ a <= c_addr c < a + length ls /\ c_obj c = o /\ c_owner c = Some m.
Proof.
  intros a o m ls. revert a. induction ls as [|l r IH]; intros a c H; [destruct H|].
  cbn [level_cells In length] in *. destruct H as [H|H].
  - subst c. cbn. repeat split; lia.
  - destruct (IH _ _ H) as [H1 [H2 [H3 H4]]]. repeat split; try assumption; lia.
Qed.

Lemma mem_nat_In : forall x l, mem_nat x l = true <-> In x l.
Proof.
  intros x l. unfold mem_nat. rewrite existsb_exists. split.
  - intros [y [Hy E]]. apply Nat.eqb_eq in E. subst. exact Hy.
  - intros H. exists x. split; [exact H | apply Nat.eqb_refl].
Qed.

Lemma assoc_nat_In : forall (A : Type) k (l : list (nat * A)) v, assoc_nat k l = Some v -> In (k, v) l.
Proof.
  intros A k l. induction l as [|[a w] r IH]; intros v H; [discriminate|].
  cbn [assoc_nat] in H. destruct (Nat.eqb_spec a k).
  - inversion H; subst. left. reflexivity.
  - right. apply IH. exact H.
Qed.

Lemma remove_key_In : forall (A : Type) k (l : list (nat * A)) m v,
  In (m, v) (remove_key k l) <-> In (m, v) l /\ m <> k.
Proof.
  intros A k l m v. induction l as [|[a w] r IH]; cbn [remove_key]; [tauto|].
  destruct (Nat.eqb_spec a k).
  - subst a. rewrite IH. cbn [In]. split; [tauto|]. intros [[E|H] Hn]; [inversion E; subst; contradiction | tauto].
  - cbn [In]. rewrite IH. split.
    + intros [E|[H Hn]]; [inversion E; subst; tauto | tauto].
    + intros [[E|H] Hn]; [left; exact E | right; tauto].
Qed.

Lemma remove_key_keys : forall (A : Type) k (l : list (nat * A)), NoDup (map fst l) -> NoDup (map fst (remove_key k l)).
Proof.
  intros A k l H. induction l as [|[a w] r IH]; [constructor|].
  cbn [map fst] in H. inversion H as [|? ? Hn Hr]; subst. cbn [remove_key].
  destruct (Nat.eqb a k); [apply IH; exact Hr|]. cbn [map fst]. constructor; [|apply IH; exact Hr].
  intros Hin. apply Hn. apply in_map_iff in Hin. destruct Hin as [[m v] [E Hin]]. cbn in E. subst m.
  apply remove_key_In in Hin. apply in_map_iff. exists (a, v). split; [reflexivity | tauto].
Qed.

Section Steps.
  Variable classes : list cinfo.

  Lemma inv_init : Inv ginit.
  Proof.
    constructor; cbn; try constructor; try (intros; contradiction).
  Qed.

  Lemma inv_attach : forall s m o levels objs next,
    Inv s -> g_next s <= next -> ~ In m (map fst (g_mobjs s)) ->
    Inv (attach s m o levels objs next).
  Proof.
    intros s m o levels objs next I Hn Hm. unfold attach.
    set (cs := level_cells next o m levels).
    assert (Hcs : map c_addr cs = seq next (length levels)) by apply level_addrs.
    assert (Hold : forall a, In a (addrs s) -> a < g_next s).
    { intros a Ha. unfold addrs in Ha. apply in_map_iff in Ha. destruct Ha as [c [E Hc]]. subst a.
      pose proof (i_cells s I) as F. rewrite Forall_forall in F. apply F in Hc. tauto. }
    constructor; cbn [g_next g_cells g_objs g_mobjs g_stale g_freed]; unfold addrs; cbn [g_cells].
    - rewrite map_app, Hcs. apply NoDup_app_intro2; [apply (i_nodup s I) | apply seq_NoDup|].
      intros a Ha Hb. apply Hold in Ha. apply in_seq in Hb. lia.
    - apply Forall_app. split.
      + pose proof (i_cells s I) as F. rewrite Forall_forall in *. intros c Hc. destruct (F c Hc). split; [assumption | lia].
      + rewrite Forall_forall. intros c Hc. destruct (level_props _ _ _ _ _ Hc) as [H1 [H2 _]]. split; [assumption | lia].
    - apply (i_freed_nodup s I).
    - intros a Ha. destruct (i_freed s I a Ha) as [H1 H2]. split; [lia|].
      rewrite map_app, Hcs. intros Hin. apply in_app_or in Hin. destruct Hin as [Hin|Hin]; [contradiction|].
      apply in_seq in Hin. lia.
    - cbn [map fst]. constructor; [exact Hm | apply (i_keys s I)].
    - intros m' l [E|Hin].
      + inversion E; subst. rewrite Hcs. split; [apply seq_NoDup|]. intros a Ha. rewrite map_app, Hcs. apply in_or_app. right. exact Ha.
      + destruct (i_held s I m' l Hin) as [H1 H2]. split; [exact H1|]. intros a Ha. rewrite map_app. apply in_or_app. left. apply H2. exact Ha.
    - intros m1 l1 m2 l2 [E1|H1] [E2|H2] Hne a Ha.
      + inversion E1; inversion E2; subst. contradiction.
      + inversion E1; subst. rewrite Hcs in Ha. apply in_seq in Ha. intros Hb.
        destruct (i_held s I m2 l2 H2) as [_ Hl]. apply Hl in Hb. apply Hold in Hb. lia.
      + inversion E2; subst. rewrite Hcs. intros Hb. apply in_seq in Hb.
        destruct (i_held s I m1 l1 H1) as [_ Hl]. apply Hl in Ha. apply Hold in Ha. lia.
      + apply (i_disj s I m1 l1 m2 l2 H1 H2 Hne a Ha).
    - intros a Ha. rewrite map_app in Ha. apply in_app_or in Ha. destruct Ha as [Ha|Ha].
      + destruct (i_owned s I a Ha) as [m' [l [H1 H2]]]. exists m', l. split; [right; exact H1 | exact H2].
      + exists m, (map c_addr cs). split; [left; reflexivity | exact Ha].
  Qed.

  Lemma filter_addrs_In : forall (f : cell -> bool) cs a, In a (map c_addr (filter f cs)) -> In a (map c_addr cs).
  Proof.
    intros f cs a H. apply in_map_iff in H. destruct H as [c [E H]]. apply filter_In in H.
    apply in_map_iff. exists c. tauto.
  Qed.

  Lemma filter_addrs_NoDup : forall (f : cell -> bool) cs, NoDup (map c_addr cs) -> NoDup (map c_addr (filter f cs)).
  Proof.
    intros f cs H. induction cs as [|c r IH]; [constructor|]. cbn [map] in H. inversion H as [|? ? Hn Hr]; subst.
    cbn [filter]. destruct (f c); [|apply IH; exact Hr]. cbn [map]. constructor; [|apply IH; exact Hr].
    intros Hin. apply Hn. apply (filter_addrs_In f). exact Hin.
  Qed.

  Lemma inv_delete : forall s m, Inv s -> In m (map fst (g_mobjs s)) -> Inv (step classes s (Delete m)).
  Proof.
    intros s m I Hm. cbn [step]. destruct (assoc_nat m (g_mobjs s)) as [l|] eqn:E.
    2:{ exfalso. clear I. induction (g_mobjs s) as [|[a w] r IH]; [destruct Hm|].
        cbn [assoc_nat] in E. cbn [map fst In] in Hm. destruct (Nat.eqb_spec a m); [discriminate|].
        destruct Hm as [Hm|Hm]; [contradiction | exact (IH Hm E)]. }
    apply assoc_nat_In in E. destruct (i_held s I m l E) as [Hnd Hlive].
    assert (Hkeep : forall a, In a (addrs s) -> ~ In a l ->
              In a (map c_addr (filter (fun c => negb (mem_nat (c_addr c) l)) (g_cells s)))).
    { intros a Ha Hn. unfold addrs in Ha. apply in_map_iff in Ha. destruct Ha as [c [Ec Hc]]. subst a.
      apply in_map_iff. exists c. split; [reflexivity|]. apply filter_In. split; [exact Hc|].
      destruct (mem_nat (c_addr c) l) eqn:M; [apply mem_nat_In in M; contradiction | reflexivity]. }
    assert (Hgone : forall a, In a (map c_addr (filter (fun c => negb (mem_nat (c_addr c) l)) (g_cells s))) -> ~ In a l).
    { intros a Ha Hl. apply in_map_iff in Ha. destruct Ha as [c [Ec Hc]]. subst a. apply filter_In in Hc.
      destruct Hc as [_ Hc]. apply mem_nat_In in Hl. rewrite Hl in Hc. discriminate. }
    constructor; cbn [g_next g_cells g_objs g_mobjs g_stale g_freed]; unfold addrs; cbn [g_cells].
    - apply filter_addrs_NoDup. apply (i_nodup s I).
    - pose proof (i_cells s I) as F. rewrite Forall_forall in *. intros c Hc. apply filter_In in Hc. apply F. tauto.
    - apply NoDup_app_intro2; [apply (i_freed_nodup s I) | exact Hnd|].
      intros a Ha Hb. destruct (i_freed s I a Ha) as [_ Hn]. apply Hn. apply Hlive. exact Hb.
    - intros a Ha. apply in_app_or in Ha. destruct Ha as [Ha|Ha].
      + destruct (i_freed s I a Ha) as [H1 H2]. split; [exact H1|]. intros Hin. apply H2. apply (filter_addrs_In _ _ _ Hin).
      + split.
        * apply Hlive in Ha. unfold addrs in Ha. apply in_map_iff in Ha. destruct Ha as [c [Ec Hc]]. subst a.
          pose proof (i_cells s I) as F. rewrite Forall_forall in F. apply F in Hc. tauto.
        * intros Hin. apply (Hgone a Hin Ha).
    - apply remove_key_keys. apply (i_keys s I).
    - intros m' l' Hin. apply remove_key_In in Hin. destruct Hin as [Hin Hne].
      destruct (i_held s I m' l' Hin) as [H1 H2]. split; [exact H1|]. intros a Ha. apply Hkeep; [apply H2; exact Ha|].
      apply (i_disj s I m' l' m l Hin E Hne a Ha).
    - intros m1 l1 m2 l2 H1 H2 Hne a Ha. apply remove_key_In in H1. apply remove_key_In in H2.
      apply (i_disj s I m1 l1 m2 l2 (proj1 H1) (proj1 H2) Hne a Ha).
    - intros a Ha. pose proof (Hgone a Ha) as Hn. apply filter_addrs_In in Ha.
      destruct (i_owned s I a Ha) as [m' [l' [H1 H2]]]. exists m', l'. split; [|exact H2].
      apply remove_key_In. split; [exact H1|]. intros Em. subst m'.
      assert (l' = l).
      { pose proof (i_keys s I) as K. clear -K H1 E. induction (g_mobjs s) as [|[a w] r IH]; [destruct H1|].
        cbn [map fst] in K. inversion K as [|? ? Kn Kr]; subst.
        destruct H1 as [H1|H1]; destruct E as [E|E].
        - congruence.
        - inversion H1; subst. exfalso. apply Kn. apply in_map_iff. exists (m, l). split; [reflexivity | exact E].
        - inversion E; subst. exfalso. apply Kn. apply in_map_iff. exists (m, l'). split; [reflexivity | exact H1].
        - apply IH; assumption. }
      subst l'. contradiction.
  Qed.

  Lemma all_registered : forall s, Inv s -> filter (fun c => negb (c_registered c)) (g_cells s) = []
                                          /\ filter c_registered (g_cells s) = g_cells s.
  Proof.
    intros s I. pose proof (i_cells s I) as F. induction (g_cells s) as [|c r IH]; [split; reflexivity|].
    inversion F as [|? ? [Hc _] Fr]; subst. destruct (IH Fr) as [H1 H2]. cbn [filter]. rewrite Hc. cbn [negb].
    split; [exact H1 | rewrite H2; reflexivity].
  Qed.

  Lemma inv_unload : forall s, Inv s -> Inv (step classes s Unload).
  Proof.
    intros s I. cbn [step]. destruct (all_registered s I) as [H1 H2]. rewrite H1, H2.
    constructor; cbn [g_next g_cells g_objs g_mobjs g_stale g_freed]; unfold addrs; cbn [g_cells map fst].
    - constructor.
    - constructor.
    - apply NoDup_app_intro2; [apply (i_freed_nodup s I) | apply (i_nodup s I)|].
      intros a Ha Hb. destruct (i_freed s I a Ha) as [_ Hn]. exact (Hn Hb).
    - intros a Ha. split; [|intros []]. apply in_app_or in Ha. destruct Ha as [Ha|Ha]; [apply (i_freed s I a Ha)|].
      apply in_map_iff in Ha. destruct Ha as [c [Ec Hc]]. subst a.
      pose proof (i_cells s I) as F. rewrite Forall_forall in F. apply F in Hc. tauto.
    - constructor.
    - intros m l [].
    - intros m1 l1 m2 l2 [].
    - intros a [].
  Qed.

  Lemma next_mono : forall s op, g_next s <= g_next (step classes s op).
  Proof.
    intros s op. destruct op as [m cls|m cls o v|m cls dyn v|m|]; cbn [step]; unfold attach; cbn [g_next]; try lia.
    destruct (assoc_nat m (g_mobjs s)); [cbn; lia|]. destruct (assoc_nat m (g_stale s)); cbn; lia.
  Qed.

  Lemma inv_step : forall s op, Inv s -> op_ok s op = true -> Inv (step classes s op).
  Proof.
    intros s op I Hok. destruct op as [m cls|m cls o v|m cls dyn v|m|].
    - cbn [step]. cbn [op_ok] in Hok. apply andb_true_iff in Hok. destruct Hok as [Hm _].
      apply inv_attach; [exact I | lia|]. intros Hin. apply mem_nat_In in Hin. rewrite Hin in Hm. discriminate.
    - cbn [step]. cbn [op_ok] in Hok. apply andb_true_iff in Hok. destruct Hok as [Hok _].
      apply andb_true_iff in Hok. destruct Hok as [Hm _].
      apply inv_attach; [exact I | lia|]. intros Hin. apply mem_nat_In in Hin. rewrite Hin in Hm. discriminate.
    - cbn [step]. cbn [op_ok] in Hok. apply andb_true_iff in Hok. destruct Hok as [Hm _].
      apply inv_attach; [exact I | lia|]. intros Hin. apply mem_nat_In in Hin. rewrite Hin in Hm. discriminate.
    - apply inv_delete; [exact I|]. cbn [op_ok] in Hok. apply mem_nat_In. exact Hok.
    - apply inv_unload. exact I.
  Qed.

  Lemma inv_run_from : forall h s, Inv s -> protocol classes s h = true -> Inv (fold_left (step classes) h s).
  Proof.
    induction h as [|op r IH]; intros s I H; [exact I|].
    cbn [protocol] in H. apply andb_true_iff in H. destruct H as [H1 H2].
    cbn [fold_left]. apply IH; [apply inv_step; assumption | exact H2].
  Qed.

  Theorem inv_run : forall h, protocol classes ginit h = true -> Inv (run classes h).
  Proof. intros h H. apply inv_run_from; [apply inv_init | exact H]. Qed.

  (* no address is ever passed to `delete` twice *)
  Lemma has_dup_false : forall l, NoDup l -> has_dup l = false.
  Proof.
    induction l as [|x r IH]; intros H; [reflexivity|]. inversion H as [|? ? Hn Hr]; subst. cbn [has_dup].
    rewrite (IH Hr). destruct (mem_nat x r) eqn:M; [apply mem_nat_In in M; contradiction | reflexivity].
  Qed.

  Theorem no_double_free : forall h, protocol classes ginit h = true -> double_free (run classes h) = false.
  Proof. intros h H. apply has_dup_false. apply (i_freed_nodup _ (inv_run h H)). Qed.

  (* unloading the module releases every collected cell, so every C++ object's last handle goes *)
  Theorem unload_releases_all : forall h, protocol classes ginit h = true ->
    g_cells (step classes (run classes h) Unload) = [] /\
    forall o, alive (step classes (run classes h) Unload) o = false.
  Proof.
    intros h H. destruct (all_registered _ (inv_run h H)) as [H1 _]. cbn [step g_cells]. rewrite H1.
    split; [reflexivity | intros o; reflexivity].
  Qed.

  (* a live cell is held by exactly one MATLAB object and sits in exactly one collector *)
  Theorem live_cell_owned : forall h a, protocol classes ginit h = true -> In a (addrs (run classes h)) ->
    exists m l, In (m, l) (g_mobjs (run classes h)) /\ In a l /\
      forall m' l', In (m', l') (g_mobjs (run classes h)) -> In a l' -> m' = m.
  Proof.
    intros h a H Ha. pose proof (inv_run h H) as I. destruct (i_owned _ I a Ha) as [m [l [H1 H2]]].
    exists m, l. split; [exact H1|]. split; [exact H2|]. intros m' l' H1' H2'.
    destruct (Nat.eq_dec m' m) as [E|Hne]; [exact E|]. exfalso.
    apply (i_disj _ I m' l' m l H1' H1 Hne a H2' H2).
  Qed.

  (* deleting a proxy removes exactly its own cells: every other proxy still finds all its cells live *)
  Theorem delete_frames_others : forall h m m' l', protocol classes ginit h = true ->
    In m (map fst (g_mobjs (run classes h))) -> m' <> m ->
    In (m', l') (g_mobjs (run classes h)) ->
    In (m', l') (g_mobjs (step classes (run classes h) (Delete m))) /\
    forall a, In a l' -> In a (addrs (step classes (run classes h) (Delete m))).
  Proof.
    intros h m m' l' H Hm Hne Hin. pose proof (inv_run h H) as I.
    pose proof (inv_delete _ m I Hm) as I'.
    assert (Hin' : In (m', l') (g_mobjs (step classes (run classes h) (Delete m)))).
    { cbn [step]. destruct (assoc_nat m (g_mobjs (run classes h))) as [l|] eqn:E.
      - cbn [g_mobjs]. apply remove_key_In. split; assumption.
      - exfalso. clear -E Hm. induction (g_mobjs (run classes h)) as [|[a w] r IH]; [destruct Hm|].
        cbn [assoc_nat] in E. cbn [map fst In] in Hm. destruct (Nat.eqb_spec a m); [discriminate|].
        destruct Hm as [Hm|Hm]; [contradiction | exact (IH Hm E)]. }
    split; [exact Hin'|]. apply (i_held _ I' m' l' Hin').
  Qed.

  (* a C++ object is alive exactly as long as some MATLAB proxy holds a cell designating it *)
  Definition held (s : gstate) (o : nat) : Prop :=
    exists m l c, In (m, l) (g_mobjs s) /\ In (c_addr c) l /\ In c (g_cells s) /\ c_obj c = o.

  Theorem alive_iff_held : forall h o, protocol classes ginit h = true ->
    (alive (run classes h) o = true <-> held (run classes h) o).
  Proof.
    intros h o H. pose proof (inv_run h H) as I. unfold alive, held. rewrite existsb_exists. split.
    - intros [c [Hc E]]. apply Nat.eqb_eq in E.
      assert (Ha : In (c_addr c) (addrs (run classes h))) by (apply in_map; exact Hc).
      destruct (i_owned _ I _ Ha) as [m [l [H1 H2]]]. exists m, l, c. tauto.
    - intros [m [l [c [_ [_ [Hc E]]]]]]. exists c. split; [exact Hc | apply Nat.eqb_eq; exact E].
  Qed.

  (* a proxy received for object o designates o at every inheritance level, and finds all its cells live *)
  Theorem receive_same_object : forall h m cls o v, protocol classes ginit (h ++ [Receive m cls o v]) = true ->
    exists l, In (m, l) (g_mobjs (run classes (h ++ [Receive m cls o v]))) /\ l <> [] /\
      forall a, In a l -> exists c, In c (g_cells (run classes (h ++ [Receive m cls o v]))) /\ c_addr c = a /\ c_obj c = o.
  Proof.
    intros h m cls o v _. unfold run. rewrite fold_left_app. cbn [fold_left step]. unfold attach. cbn [g_mobjs g_cells].
    match goal with |- context[level_cells ?n o m ?ls] => set (cs := level_cells n o m ls); set (lv := ls) in * end.
    exists (map c_addr cs). split; [left; reflexivity|]. split.
    - assert (Hl : lv <> []). { unfold lv, chain_of. destruct (length classes); cbn [chain]; [discriminate|].
        match goal with |- context[find_class ?cl ?x] => destruct (find_class cl x) as [ci|] end; [destruct (ci_base ci)|]; discriminate. }
      unfold cs. destruct lv; [contradiction | discriminate].
    - intros a Ha. apply in_map_iff in Ha. destruct Ha as [c [E Hc]]. exists c. split; [apply in_or_app; right; exact Hc|].
      split; [exact E|]. apply (level_props _ _ _ _ _ Hc).
  Qed.
End Steps.

(* deleting a proxy that survived an unload frees its cell a second time *)
Definition refute_classes : list cinfo := [{| ci_name := "A"; ci_base := None; ci_virtual := false |}].
Definition refute_history : list gop := [Construct 1 "A"; Unload; Delete 1].
Lemma delete_after_unload_double_free : double_free (run refute_classes refute_history) = true.
Proof. vm_compute. reflexivity. Qed.

(* C15, MATLAB half: putting a namespaced class on the ignore list is deleting its declaration - for the id table
   (hence for the dispatch switch, the routines and every id written into a .m file, renumbering included, since ids
   are positions in that table), for the classdef files and for the preamble. *)
From Coq Require Import String Ascii List Bool Arith.
From Wrap Require Import Base.Str Base.StrLemmas Base.ListX Syntax.Ast Syntax.Print Inst.Model Matlab.Ids Matlab.Arity Matlab.Files
     Pybind.SpecProofs.
Import ListNotations.
Open Scope string_scope.
Open Scope list_scope.

Definition set_ignore (c : mcfg) (l : list string) : mcfg := {| m_module := m_module c; m_ignore := l; m_boost := m_boost c |}.

Section Ignore.
  Variable nm : string.      (* the ignore entry, e.g. "ns::inner::A" *)
  Definition hit (k : iclass) : bool := String.eqb (ignore_name k) nm.

  (* deleting every declaration of a class with that name, at any depth *)
  Fixpoint rm_item (i : item) : list item :=
    match i with
    | IClass k => if hit k then [] else [i]
    | INamespace n content => [INamespace n (flat_map rm_item content)]
    | _ => [i]
    end.
  Definition rm (l : list item) : list item := flat_map rm_item l.

  Lemma ignored_one : forall c k, m_ignore c = [] -> ignored (set_ignore c [nm]) k = hit k.
  Proof.
    intros c k H. unfold ignored, hit, set_ignore. cbn [m_ignore mem_str]. unfold mem_str. cbn.
    destruct (ignore_name k =? nm)%string; reflexivity.
  Qed.
  Lemma ignored_none : forall c k, m_ignore c = [] -> ignored c k = false.
  Proof. intros c k H. unfold ignored. rewrite H. reflexivity. Qed.

  Lemma funcs_rm : forall l, flat_map (fun x => match x with IFun f => [f] | _ => [] end) (rm l)
                           = flat_map (fun x => match x with IFun f => [f] | _ => [] end) l.
  Proof.
    induction l as [|x r IH]; [reflexivity|]. unfold rm in *. cbn [flat_map]. rewrite flat_map_app, IH.
    destruct x; cbn [rm_item flat_map app]; try reflexivity. destruct (hit c); reflexivity.
  Qed.

  Lemma enums_at_rm : forall home l, enums_at (rm l) home = enums_at l home.
  Proof.
    induction home as [|n rest IH]; intros l.
    - cbn [enums_at]. induction l as [|x r IHl]; [reflexivity|]. unfold rm in *. cbn [flat_map]. rewrite flat_map_app, IHl.
      destruct x; cbn [rm_item flat_map app]; try reflexivity. destruct (hit c); reflexivity.
    - cbn [enums_at]. induction l as [|x r IHl]; [reflexivity|]. unfold rm in *. cbn [flat_map]. rewrite flat_map_app, IHl.
      destruct x; cbn [rm_item flat_map app]; try reflexivity.
      + destruct (hit c); reflexivity.
      + rewrite app_nil_r. destruct (String.eqb n name); [|reflexivity]. f_equal. apply (IH content).
  Qed.

  Lemma class_slots_top : forall c top home k, class_slots c (rm top) home k = class_slots c top home k.
  Proof. intros. unfold class_slots. rewrite enums_at_rm. reflexivity. Qed.
  Lemma class_slots_cfg : forall c l top home k, class_slots (set_ignore c l) top home k = class_slots c top home k.
  Proof. intros. destruct c. reflexivity. Qed.

  (* slots of a list of items met at one level *)
  Definition slots_of (c : mcfg) (top : list item) (home : list string) (l : list item) : option (list (option slot)) :=
    fold_right (fun x acc => app_opt (item_slots c top home x) acc) (Some []) l.

  Lemma app_opt_nil_l : forall (A : Type) (x : option (list A)), app_opt (Some []) x = x.
  Proof. intros A [x|]; reflexivity. Qed.
  Lemma app_opt_assoc : forall (A : Type) (x y z : option (list A)), app_opt (app_opt x y) z = app_opt x (app_opt y z).
  Proof. intros A [x|] [y|] [z|]; cbn; try reflexivity. rewrite app_assoc. reflexivity. Qed.
  Lemma slots_of_app : forall c top home a b, slots_of c top home (a ++ b) = app_opt (slots_of c top home a) (slots_of c top home b).
  Proof.
    intros c top home a b. induction a as [|x r IH]; cbn [app slots_of fold_right].
    - symmetry. apply app_opt_nil_l.
    - fold (slots_of c top home (r ++ b)). fold (slots_of c top home r). rewrite IH, app_opt_assoc. reflexivity.
  Qed.

  Lemma app_opt_nil_r : forall (A : Type) (x : option (list A)), app_opt x (Some []) = x.
  Proof. intros A [x|]; cbn; [rewrite app_nil_r|]; reflexivity. Qed.
  Lemma item_slots_ns : forall c top home n content,
    item_slots c top home (INamespace n content)
    = app_opt (slots_of c top (home ++ [n]) content)
              (function_slots n (home ++ [n]) (flat_map (fun x => match x with IFun f => [f] | _ => [] end) content)).
  Proof. reflexivity. Qed.

  (* inside a namespace, a class on the ignore list contributes what no class contributes *)
  Theorem item_slots_ignore : forall c top, m_ignore c = [] -> forall i home, home <> [] ->
    item_slots (set_ignore c [nm]) top home i = slots_of c (rm top) home (rm_item i).
  Proof.
    intros c top Hc. induction i as [k|f|d|f|h|e|v|n content IH] using item_ind'; intros home Hh;
      try (cbn [rm_item slots_of fold_right item_slots]; reflexivity).
    - cbn [rm_item item_slots]. rewrite (ignored_one c k Hc). destruct (hit k) eqn:E.
      + destruct home; [contradiction | reflexivity].
      + cbn [slots_of fold_right item_slots]. rewrite (ignored_none c k Hc), class_slots_cfg, class_slots_top.
        rewrite app_opt_nil_r. reflexivity.
    - assert (Hh' : home ++ [n] <> []) by (destruct home; discriminate).
      cbn [rm_item slots_of fold_right]. rewrite !item_slots_ns, app_opt_nil_r. fold (rm content). rewrite funcs_rm.
      f_equal. clear Hh. induction content as [|x r IHr]; [reflexivity|]. inversion IH as [|? ? Px Pr]; subst.
      change (rm (x :: r)) with (rm_item x ++ rm r). rewrite slots_of_app.
      cbn [slots_of fold_right]. fold (slots_of (set_ignore c [nm]) top (home ++ [n]) r).
      rewrite (Px _ Hh'), (IHr Pr). reflexivity.
  Qed.

  (* the whole module, when no global class carries the ignored name *)
  Theorem module_slots_ignore : forall c content, m_ignore c = [] ->
    forallb (fun i => match i with IClass k => negb (hit k) | _ => true end) content = true ->
    module_slots (set_ignore c [nm]) content content = module_slots c (rm content) (rm content).
  Proof.
    intros c content Hc Hg. unfold module_slots. rewrite funcs_rm. f_equal.
    assert (G : forall l, forallb (fun i => match i with IClass k => negb (hit k) | _ => true end) l = true ->
              fold_right (fun x acc => app_opt (item_slots (set_ignore c [nm]) content [] x) acc) (Some []) l
              = slots_of c (rm content) [] (rm l)).
    { induction l as [|x r IHr]; intros H; [reflexivity|]. cbn [forallb] in H. apply andb_true_iff in H. destruct H as [Hx Hr].
      cbn [fold_right]. rewrite (IHr Hr). change (rm (x :: r)) with (rm_item x ++ rm r). rewrite slots_of_app. f_equal.
      destruct x as [k|f|d|f|h|e|v|n sub]; try reflexivity.
      - (* a global class that is not the ignored one *)
        apply negb_true_iff in Hx. cbn [rm_item item_slots]. rewrite (ignored_one c k Hc), Hx.
        cbn [slots_of fold_right item_slots]. rewrite (ignored_none c k Hc), class_slots_cfg, class_slots_top, app_opt_nil_r. reflexivity.
      - (* a namespace: everything below is at a non-empty path *)
        cbn [rm_item slots_of fold_right]. rewrite !item_slots_ns, app_opt_nil_r. fold (rm sub). rewrite funcs_rm. f_equal.
        clear - Hc. assert (Hh' : [] ++ [n] <> []) by discriminate. induction sub as [|y r IHs]; [reflexivity|].
        change (rm (y :: r)) with (rm_item y ++ rm r). rewrite slots_of_app. cbn [slots_of fold_right].
        fold (slots_of (set_ignore c [nm]) content ([] ++ [n]) r). rewrite IHs.
        rewrite (item_slots_ignore c content Hc y _ Hh'). reflexivity. }
    unfold slots_of in G. rewrite (G content Hg). reflexivity.
  Qed.
End Ignore.

(* classdef files and the MEX preamble *)
Section IgnoreFiles.
  Variable nm : string.

  Lemma class_skeleton_cfg : forall c l home k, class_skeleton (set_ignore c l) home k = class_skeleton c home k.
  Proof. intros. destruct c. reflexivity. Qed.

  Theorem skeletons_ignore : forall c, m_ignore c = [] -> forall i home,
    skeletons (set_ignore c [nm]) home i = flat_map (skeletons c home) (rm_item nm i).
  Proof.
    intros c Hc. induction i as [k|f|d|f|h|e|v|n content IH] using item_ind'; intros home;
      try (cbn [rm_item flat_map skeletons app]; reflexivity).
    - cbn [rm_item skeletons]. rewrite (ignored_one nm c k Hc). destruct (hit nm k).
      + reflexivity.
      + cbn [flat_map skeletons]. rewrite (ignored_none c k Hc), class_skeleton_cfg, app_nil_r. reflexivity.
    - cbn [rm_item flat_map skeletons]. rewrite app_nil_r.
      induction content as [|x r IHr]; [reflexivity|]. inversion IH as [|? ? Px Pr]; subst.
      rewrite (Px (home ++ [n])), (IHr Pr). cbn [flat_map].
      (* the right-hand side walks rm_item x ++ rest *)
      assert (A : forall a b, (fix go (l : list item) : list (string * skeleton) :=
                                 match l with [] => [] | x0 :: r0 => skeletons c (home ++ [n]) x0 ++ go r0 end) (a ++ b)
                              = flat_map (skeletons c (home ++ [n])) a ++
                                (fix go (l : list item) : list (string * skeleton) :=
                                   match l with [] => [] | x0 :: r0 => skeletons c (home ++ [n]) x0 ++ go r0 end) b).
      { induction a as [|y a IHa]; intros b; [reflexivity|]. cbn [app flat_map]. rewrite IHa, app_assoc. reflexivity. }
      rewrite A. reflexivity.
  Qed.

  Theorem preamble_ignore : forall c content, m_ignore c = [] ->
    preamble_classes (set_ignore c [nm]) content
    = filter (fun k => negb (String.eqb (preamble_ignore_name k) nm)) (preamble_classes c content).
  Proof.
    intros c content Hc. unfold preamble_classes. rewrite Hc. cbn [set_ignore m_ignore].
    induction (flat_map walked_classes content) as [|k r IH]; [reflexivity|].
    cbn [filter mem_str negb]. destruct (String.eqb (preamble_ignore_name k) nm) eqn:E; cbn [negb filter]; rewrite ?E; cbn [negb].
    - exact IH.
    - f_equal. exact IH.
  Qed.

  (* both tests spell a namespaced class the same way *)
  Lemma join_snoc : forall sep h n, h <> [] -> join sep (h ++ [n]) = (join sep h ++ sep ++ n)%string.
  Proof.
    intros sep h n H. unfold join. induction h as [|a h IH]; [contradiction|]. destruct h as [|b h].
    - reflexivity.
    - change (String.concat sep ((a :: b :: h) ++ [n])) with (a ++ sep ++ String.concat sep ((b :: h) ++ [n]))%string.
      rewrite IH by discriminate. change (String.concat sep (a :: b :: h)) with (a ++ sep ++ String.concat sep (b :: h))%string.
      rewrite !append_assoc. reflexivity.
  Qed.
  Lemma names_agree : forall k, ic_home k <> [] -> ignore_name k = preamble_ignore_name k.
  Proof. intros k H. unfold ignore_name, preamble_ignore_name. rewrite join_snoc by exact H. reflexivity. Qed.
End IgnoreFiles.

"""C02 - template instantiation is exact, capture-free substitution."""
import json

from props import instcommon as ic
from props.c08 import report_known, decide

TRUSTED = ['harness/proj_impl.py (calls the implementation\'s own to_cpp())']


def project(p):
    """every C++ type spelling of every instantiated member, with names and defaults; keyed by the
    instantiation's C++ name and sorted, so that order (C08's business) does not matter here"""
    import sexp as _s
    out = []
    for it in p:
        k = it[0]
        if k == 'class':
            out.append(['class', it[2], it[4], sorted(_s.dumps(c[2]) for c in it[5]),
                        sorted(_s.dumps([m[0], m[2], m[3], m[4]]) for m in it[6]),
                        sorted(_s.dumps([m[0], m[2], m[3]]) for m in it[7]), it[8], it[9]])
        elif k == 'fun':
            out.append(['fun', it[2], it[4], it[5]])
        elif k == 'ns':
            out.append(['ns', it[1], project(it[2])])
    return sorted(out, key=_s.dumps)


def run(rep, tier, seed, replay=None, proof_ok=True):
    rep.coverage['rule'] = ('fixtures + corpus + seeded generator with parameters at every type position '
                            '(whole name, first-level argument, deeper, scoped T::X, This, This::X); non-trivial = '
                            'distinct parse tree with a class or function; compared: to_cpp() of every type in '
                            'every instantiated member vs Inst/Model.v printed by Syntax/Print.v')
    q = ic.detect_quirks()
    rep.coverage['quirks_detected'] = dict(zip(ic.QUIRK_BITS, q))
    report_known(rep, q, 'C02')
    if replay:
        texts = [('replay', json.load(open(replay))['input'])]
        stats = {}
    else:
        texts, stats = ic.gen_texts(tier, seed, 400, 8000)
    rep.coverage['input_distribution'] = stats
    dis = ic.compare_all(rep, texts, q, project, 'C02')
    decide(rep, dis, 'C02', 'correspondence impl.instantiate_namespace vs Inst/Model.v on type spellings')
    return 0

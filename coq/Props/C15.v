(* C15 - ignoring or removing a class affects that class only. *)
From Coq Require Import String Ascii List Bool Arith.
From Wrap Require Import Base.Str Base.ListX Syntax.Ast Syntax.Print Inst.Model Inst.Proj
     Pybind.Items Pybind.Gen Pybind.SpecProofs Pybind.IgnoreProofs.
From Wrap Require Matlab.Ids Matlab.Files Matlab.IgnoreProofs.
Import ListNotations.
Open Scope string_scope.
Open Scope list_scope.

(* putting a class on the ignore list produces exactly the records (bindings, includes, serialization
   exports) of the input with every declaration of that C++ name deleted - at global scope and in
   namespaces alike, whatever else the input contains *)
Theorem C15_pybind_ignore_is_remove : forall q c doc x content,
  mem_str x (ignore c) = false -> forallb (dom_ignore q x) content = true ->
  wrap_module q (with_ignore x c) doc content = wrap_module q c doc (flat_map (remove_item x) content).
Proof. intros q c doc x content _. exact (ignore_is_remove q c doc x content). Qed.
Print Assumptions C15_pybind_ignore_is_remove.

(* every other entity's generated code is unchanged: the records of a scope are the concatenation of
   the records of its elements, each computed from that element alone *)
Theorem C15_pybind_compositional : forall q c doc ns inside l1 l2,
  wrap_list q doc c ns inside (l1 ++ l2)
  = out_app (wrap_list q doc c ns inside l1) (wrap_list q doc c ns inside l2).
Proof. intros. apply wrap_list_app. Qed.
Print Assumptions C15_pybind_compositional.

(* Full statement incl. nested enums of the ignored class: refuted while q_ignored_enums is on
   (see Props/C03.v, C03_refuted_ignored_enums): dom_ignore excludes exactly that class of inputs *)
Example C15_nonvacuous :
  forallb (dom_ignore impl_pquirks "gtsam::A")
          [INamespace "gtsam" [IClass {| ic_home := ["gtsam"]; ic_orig := "A"; ic_templated := false; ic_insts := [];
                                         ic_name := "A"; ic_virtual := false; ic_base := None; ic_ctors := [];
                                         ic_methods := []; ic_statics := []; ic_dunders := []; ic_props := [];
                                         ic_ops := []; ic_enums := [] |}]] = true.
Proof. reflexivity. Qed.

(* ---------------- MATLAB ---------------- *)
Module M.
Import Matlab.Ids Matlab.Files Matlab.IgnoreProofs.

(* Ignoring a namespaced class gives the id table of the input without its declaration - and the dispatch switch, the
   routines and every id written into a .m file are functions of that table (C05), ids being positions in it: the
   other entities keep their code and are renumbered consistently.  No global class may carry the ignored name. *)
Theorem C15_matlab_ids_ignore_is_remove : forall nm c content, m_ignore c = [] ->
  forallb (fun i => match i with IClass k => negb (hit nm k) | _ => true end) content = true ->
  module_slots (set_ignore c [nm]) content content = module_slots c (rm nm content) (rm nm content).
Proof. exact module_slots_ignore. Qed.
Print Assumptions C15_matlab_ids_ignore_is_remove.

(* the classdef files *)
Theorem C15_matlab_classdefs_ignore_is_remove : forall nm c, m_ignore c = [] -> forall i home,
  skeletons (set_ignore c [nm]) home i = flat_map (skeletons c home) (rm_item nm i).
Proof. exact skeletons_ignore. Qed.
Print Assumptions C15_matlab_classdefs_ignore_is_remove.

(* collectors, _deleteAllObjects and the RTTI registry list the classes that are not ignored; for a namespaced class
   this test and the one above spell the class the same way *)
Theorem C15_matlab_preamble : forall nm c content, m_ignore c = [] ->
  preamble_classes (set_ignore c [nm]) content
  = filter (fun k => negb (String.eqb (preamble_ignore_name k) nm)) (preamble_classes c content).
Proof. exact preamble_ignore. Qed.
Print Assumptions C15_matlab_preamble.
Theorem C15_matlab_names_agree : forall k, ic_home k <> [] -> ignore_name k = preamble_ignore_name k.
Proof. exact names_agree. Qed.
Print Assumptions C15_matlab_names_agree.

(* Full statement (global scope as well) refuted: for a class at global scope the walk compares "::A" and the preamble
   compares "A".  Spelled "A" the class keeps its classdef and routines and loses its collector; spelled "::A" the
   generator fails (wrapper.py subscripts None).  Recorded finding. *)
Definition gclass : iclass :=
  {| ic_home := []; ic_orig := "A"; ic_templated := false; ic_insts := []; ic_name := "A"; ic_virtual := false; ic_base := None;
     ic_ctors := []; ic_methods := []; ic_statics := []; ic_dunders := []; ic_props := []; ic_ops := []; ic_enums := [] |}.
Definition c0 : mcfg := {| m_module := "m"; m_ignore := []; m_boost := false |}.
Theorem C15_matlab_refuted_global_scope :
  (* "A": still in the id table, no longer in the preamble *)
  module_slots (set_ignore c0 ["A"]) [IClass gclass] [IClass gclass] = module_slots c0 [IClass gclass] [IClass gclass] /\
  preamble_classes (set_ignore c0 ["A"]) [IClass gclass] = [] /\
  (* "::A": the generator fails *)
  module_slots (set_ignore c0 ["::A"]) [IClass gclass] [IClass gclass] = None.
Proof. vm_compute. repeat split; reflexivity. Qed.
Print Assumptions C15_matlab_refuted_global_scope.

Definition nclass : iclass :=
  {| ic_home := ["ns"]; ic_orig := "A"; ic_templated := false; ic_insts := []; ic_name := "A"; ic_virtual := true; ic_base := None;
     ic_ctors := []; ic_methods := []; ic_statics := []; ic_dunders := []; ic_props := []; ic_ops := []; ic_enums := [] |}.
Example C15_matlab_nonvacuous :
  let content := [IClass gclass; INamespace "ns" [IClass nclass; IClass gclass]] in
  rm "ns::A" content = [IClass gclass; INamespace "ns" [IClass gclass]] /\
  option_map (@length _) (module_slots (set_ignore c0 ["ns::A"]) content content) = Some 4 /\
  option_map (@length _) (module_slots c0 content content) = Some 7.
Proof. vm_compute. repeat split; reflexivity. Qed.
End M.

(* Decoders / encoders between S-expressions and the tree datatypes. *)
From Coq Require Import String Ascii List Bool Arith.
From Wrap Require Import Base.Str Base.ListX Syntax.Sexp Syntax.Ast.
Import ListNotations.
Open Scope string_scope.

Definition bind {A B} (o : option A) (f : A -> option B) : option B :=
  match o with Some x => f x | None => None end.
Notation "'do' x <- o ; k" := (bind o (fun x => k)) (at level 200, x pattern, right associativity).

(* ---------- encoders ---------- *)
Definition e_str (s : string) : sexp := Atom s.
Definition e_bool (b : bool) : sexp := Atom (if b then "T" else "F").
Definition e_list {A} (f : A -> sexp) (l : list A) : sexp := SList (map f l).
Definition e_opt {A} (f : A -> sexp) (o : option A) : sexp :=
  match o with Some x => SList [f x] | None => SList [] end.
Definition tag (t : string) (l : list sexp) : sexp := SList (Atom t :: l).

Fixpoint e_typename (t : typename) : sexp :=
  match t with
  | Typename ns n insts =>
    tag "tn" [e_list e_str ns;
              match n with NStr s => Atom s | NObj t' => tag "obj" [e_typename t'] end;
              SList (map e_typename insts)]
  end.
Definition e_nm (n : nm) : sexp :=
  match n with NStr s => Atom s | NObj t' => tag "obj" [e_typename t'] end.
Definition e_ptrk (p : ptrk) : sexp :=
  Atom (match p with PNone => "" | PShared => "*" | PRaw => "@" | PRef => "&" end).
Fixpoint e_ty (t : ty) : sexp :=
  match t with
  | TPlain tn c p b => tag "ty" [e_typename tn; e_bool c; e_ptrk p; e_bool b]
  | TTempl ns n ps c p => tag "tt" [e_list e_str ns; e_nm n; SList (map e_ty ps); e_bool c; e_ptrk p]
  end.
Definition e_ret (r : ret) : sexp :=
  match r with RSingle t => tag "r1" [e_ty t] | RPair a b => tag "r2" [e_ty a; e_ty b] end.
Definition e_arg (a : arg) : sexp := tag "arg" [e_ty (a_ty a); e_str (a_name a); e_opt e_str (a_default a)].
Definition e_args := e_list e_arg.
Definition e_template (t : template) : sexp :=
  tag "tmpl" [e_list e_str (t_names t); e_list (e_list e_typename) (t_insts t)].
Definition e_tmpl := e_opt e_template.
Definition e_method (m : method) : sexp :=
  tag "method" [e_tmpl (m_tmpl m); e_str (m_name m); e_ret (m_ret m); e_args (m_args m); e_bool (m_const m)].
Definition e_smethod (m : smethod) : sexp :=
  tag "static" [e_tmpl (s_tmpl m); e_str (s_name m); e_ret (s_ret m); e_args (s_args m)].
Definition e_ctor (k : ctor) : sexp := tag "ctor" [e_tmpl (k_tmpl k); e_str (k_name k); e_args (k_args k)].
Definition e_oper (o : oper) : sexp :=
  tag "op" [e_str (o_sym o); e_ret (o_ret o); e_args (o_args o); e_bool (o_const o)].
Definition e_dunder (d : dunder) : sexp := tag "dunder" [e_str (du_name d); e_args (du_args d)].
Definition e_var (v : var) : sexp := tag "var" [e_ty (v_ty v); e_str (v_name v); e_opt e_str (v_default v)].
Definition e_enum (e : enum) : sexp := tag "enum" [e_str (e_name e); e_list e_str (e_items e)].
Definition e_base (b : base) : sexp :=
  match b with BTempl t => tag "bt" [e_ty t] | BName tn => tag "bn" [e_typename tn] end.
Definition e_class (c : class) : sexp :=
  tag "class" [e_tmpl (c_tmpl c); e_bool (c_virtual c); e_str (c_name c); e_opt e_base (c_base c);
               e_list e_ctor (c_ctors c); e_list e_method (c_methods c); e_list e_smethod (c_statics c);
               e_list e_dunder (c_dunders c); e_list e_var (c_props c); e_list e_oper (c_ops c);
               e_list e_enum (c_enums c)].
Definition e_func (f : func) : sexp :=
  tag "fun" [e_tmpl (f_tmpl f); e_str (f_name f); e_ret (f_ret f); e_args (f_args f)].
Definition e_fwd (f : fwd) : sexp :=
  tag "fwd" [e_bool (fw_virtual f); e_typename (fw_tn f); e_opt e_typename (fw_parent f)].
Fixpoint e_decl (d : decl) : sexp :=
  match d with
  | DClass c => e_class c
  | DFun f => e_func f
  | DTypedef t n => tag "typedef" [e_typename t; e_str n]
  | DFwd f => e_fwd f
  | DInclude h => tag "include" [e_str h]
  | DEnum e => e_enum e
  | DVar v => e_var v
  | DNamespace n c => tag "ns" [e_str n; SList (map e_decl c)]
  end.

Definition e_imethod (m : imethod) : sexp :=
  tag "imethod" [e_str (im_orig m); e_bool (im_templated m); e_list e_typename (im_insts m);
                 e_str (im_name m); e_ret (im_ret m); e_args (im_args m); e_bool (im_const m)].
Definition e_ismethod (m : ismethod) : sexp :=
  tag "istatic" [e_str (is_orig m); e_bool (is_templated m); e_list e_typename (is_insts m);
                 e_str (is_name m); e_ret (is_ret m); e_args (is_args m)].
Definition e_ictor (k : ictor) : sexp :=
  tag "ictor" [e_str (ik_orig k); e_bool (ik_templated k); e_list e_typename (ik_insts k);
               e_str (ik_name k); e_args (ik_args k)].
Definition e_iclass (c : iclass) : sexp :=
  tag "iclass" [e_list e_str (ic_home c); e_str (ic_orig c); e_bool (ic_templated c);
                e_list e_typename (ic_insts c); e_str (ic_name c); e_bool (ic_virtual c);
                e_opt e_typename (ic_base c);
                e_list e_ictor (ic_ctors c); e_list e_imethod (ic_methods c);
                e_list e_ismethod (ic_statics c); e_list e_dunder (ic_dunders c);
                e_list e_var (ic_props c); e_list e_oper (ic_ops c); e_list e_enum (ic_enums c)].
Definition e_ifunc (f : ifunc) : sexp :=
  tag "ifun" [e_list e_str (if_home f); e_str (if_orig f); e_bool (if_templated f);
              e_list e_typename (if_insts f); e_str (if_name f); e_ret (if_ret f); e_args (if_args f)].
Definition e_idecl (d : idecl) : sexp :=
  tag "idecl" [e_list e_str (id_home d); e_str (id_orig d); e_list e_typename (id_insts d); e_str (id_name d)].
Fixpoint e_item (i : item) : sexp :=
  match i with
  | IClass c => e_iclass c
  | IFun f => e_ifunc f
  | IDecl d => e_idecl d
  | IFwd f => e_fwd f
  | IInclude h => tag "include" [e_str h]
  | IEnum e => e_enum e
  | IVar v => e_var v
  | INamespace n c => tag "ns" [e_str n; SList (map e_item c)]
  end.

(* ---------- decoders ---------- *)
Definition d_str (x : sexp) : option string := match x with Atom s => Some s | _ => None end.
Definition d_bool (x : sexp) : option bool :=
  match x with
  | Atom s => if String.eqb s "T" then Some true else if String.eqb s "F" then Some false else None
  | _ => None
  end.
Definition d_list {A} (f : sexp -> option A) (x : sexp) : option (list A) :=
  match x with SList l => sequence (map f l) | _ => None end.
Definition d_opt {A} (f : sexp -> option A) (x : sexp) : option (option A) :=
  match x with
  | SList [] => Some None
  | SList [y] => option_map Some (f y)
  | _ => None
  end.
Definition untag (t : string) (x : sexp) : option (list sexp) :=
  match x with
  | SList (Atom t' :: r) => if String.eqb t t' then Some r else None
  | _ => None
  end.
Definition d_nat (x : sexp) : option nat :=
  match x with
  | Atom s =>
    (fix go (s : string) (acc : nat) : option nat :=
       match s with
       | EmptyString => Some acc
       | String c r => let n := nat_of_ascii c in
                       if andb (Nat.leb 48 n) (Nat.leb n 57) then go r (acc * 10 + (n - 48)) else None
       end) s 0
  | _ => None
  end.

Fixpoint d_typename (x : sexp) : option typename :=
  match x with
  | SList [Atom t; ns; n; SList insts] =>
    if String.eqb t "tn" then
      do ns' <- d_list d_str ns;
      do n' <- match n with
               | Atom s => Some (NStr s)
               | SList [Atom o; y] => if String.eqb o "obj" then option_map NObj (d_typename y) else None
               | _ => None
               end;
      do insts' <- sequence (map d_typename insts);
      Some (Typename ns' n' insts')
    else None
  | _ => None
  end.
Definition d_nm (n : sexp) : option nm :=
  match n with
  | Atom s => Some (NStr s)
  | SList [Atom o; y] => if String.eqb o "obj" then option_map NObj (d_typename y) else None
  | _ => None
  end.
Definition d_ptrk (x : sexp) : option ptrk :=
  match x with
  | Atom s => if String.eqb s "" then Some PNone else if String.eqb s "*" then Some PShared
              else if String.eqb s "@" then Some PRaw else if String.eqb s "&" then Some PRef else None
  | _ => None
  end.
Fixpoint d_ty (x : sexp) : option ty :=
  match x with
  | SList [Atom t; a; b; c; d] =>
    if String.eqb t "ty" then
      do tn <- d_typename a; do c' <- d_bool b; do p <- d_ptrk c; do bs <- d_bool d;
      Some (TPlain tn c' p bs)
    else None
  | SList [Atom t; ns; n; SList ps; c; p] =>
    if String.eqb t "tt" then
      do ns' <- d_list d_str ns; do n' <- d_nm n;
      do ps' <- sequence (map d_ty ps);
      do c' <- d_bool c; do p' <- d_ptrk p;
      Some (TTempl ns' n' ps' c' p')
    else None
  | _ => None
  end.
Definition d_ret (x : sexp) : option ret :=
  match x with
  | SList [Atom t; a] => if String.eqb t "r1" then option_map RSingle (d_ty a) else None
  | SList [Atom t; a; b] => if String.eqb t "r2" then do a' <- d_ty a; do b' <- d_ty b; Some (RPair a' b') else None
  | _ => None
  end.
Definition d_arg (x : sexp) : option arg :=
  do l <- untag "arg" x;
  match l with
  | [t; n; d] => do t' <- d_ty t; do n' <- d_str n; do d' <- d_opt d_str d;
                 Some {| a_ty := t'; a_name := n'; a_default := d' |}
  | _ => None
  end.
Definition d_args := d_list d_arg.
Definition d_template (x : sexp) : option template :=
  do l <- untag "tmpl" x;
  match l with
  | [ns; is] => do ns' <- d_list d_str ns; do is' <- d_list (d_list d_typename) is;
                Some {| t_names := ns'; t_insts := is' |}
  | _ => None
  end.
Definition d_tmpl := d_opt d_template.
Definition d_method (x : sexp) : option method :=
  do l <- untag "method" x;
  match l with
  | [t; n; r; a; c] => do t' <- d_tmpl t; do n' <- d_str n; do r' <- d_ret r; do a' <- d_args a; do c' <- d_bool c;
                       Some {| m_tmpl := t'; m_name := n'; m_ret := r'; m_args := a'; m_const := c' |}
  | _ => None
  end.
Definition d_smethod (x : sexp) : option smethod :=
  do l <- untag "static" x;
  match l with
  | [t; n; r; a] => do t' <- d_tmpl t; do n' <- d_str n; do r' <- d_ret r; do a' <- d_args a;
                    Some {| s_tmpl := t'; s_name := n'; s_ret := r'; s_args := a' |}
  | _ => None
  end.
Definition d_ctor (x : sexp) : option ctor :=
  do l <- untag "ctor" x;
  match l with
  | [t; n; a] => do t' <- d_tmpl t; do n' <- d_str n; do a' <- d_args a;
                 Some {| k_tmpl := t'; k_name := n'; k_args := a' |}
  | _ => None
  end.
Definition d_oper (x : sexp) : option oper :=
  do l <- untag "op" x;
  match l with
  | [s; r; a; c] => do s' <- d_str s; do r' <- d_ret r; do a' <- d_args a; do c' <- d_bool c;
                    Some {| o_sym := s'; o_ret := r'; o_args := a'; o_const := c' |}
  | _ => None
  end.
Definition d_dunder (x : sexp) : option dunder :=
  do l <- untag "dunder" x;
  match l with
  | [n; a] => do n' <- d_str n; do a' <- d_args a; Some {| du_name := n'; du_args := a' |}
  | _ => None
  end.
Definition d_var (x : sexp) : option var :=
  do l <- untag "var" x;
  match l with
  | [t; n; d] => do t' <- d_ty t; do n' <- d_str n; do d' <- d_opt d_str d;
                 Some {| v_ty := t'; v_name := n'; v_default := d' |}
  | _ => None
  end.
Definition d_enum (x : sexp) : option enum :=
  do l <- untag "enum" x;
  match l with
  | [n; is] => do n' <- d_str n; do is' <- d_list d_str is; Some {| e_name := n'; e_items := is' |}
  | _ => None
  end.
Definition d_base (x : sexp) : option base :=
  match x with
  | SList [Atom t; a] =>
    if String.eqb t "bt" then option_map BTempl (d_ty a)
    else if String.eqb t "bn" then option_map BName (d_typename a) else None
  | _ => None
  end.
Definition d_class (x : sexp) : option class :=
  do l <- untag "class" x;
  match l with
  | [t; v; n; b; ks; ms; ss; ds; ps; os; es] =>
    do t' <- d_tmpl t; do v' <- d_bool v; do n' <- d_str n; do b' <- d_opt d_base b;
    do ks' <- d_list d_ctor ks; do ms' <- d_list d_method ms; do ss' <- d_list d_smethod ss;
    do ds' <- d_list d_dunder ds; do ps' <- d_list d_var ps; do os' <- d_list d_oper os;
    do es' <- d_list d_enum es;
    Some {| c_tmpl := t'; c_virtual := v'; c_name := n'; c_base := b'; c_ctors := ks';
            c_methods := ms'; c_statics := ss'; c_dunders := ds'; c_props := ps'; c_ops := os';
            c_enums := es' |}
  | _ => None
  end.
Definition d_func (x : sexp) : option func :=
  do l <- untag "fun" x;
  match l with
  | [t; n; r; a] => do t' <- d_tmpl t; do n' <- d_str n; do r' <- d_ret r; do a' <- d_args a;
                    Some {| f_tmpl := t'; f_name := n'; f_ret := r'; f_args := a' |}
  | _ => None
  end.
Definition d_fwd (x : sexp) : option fwd :=
  do l <- untag "fwd" x;
  match l with
  | [v; t; p] => do v' <- d_bool v; do t' <- d_typename t; do p' <- d_opt d_typename p;
                 Some {| fw_virtual := v'; fw_tn := t'; fw_parent := p' |}
  | _ => None
  end.
Definition head_tag (x : sexp) : string :=
  match x with SList (Atom t :: _) => t | _ => "" end.

Fixpoint d_decl (x : sexp) : option decl :=
  let t := head_tag x in
  if String.eqb t "class" then option_map DClass (d_class x)
  else if String.eqb t "fun" then option_map DFun (d_func x)
  else if String.eqb t "fwd" then option_map DFwd (d_fwd x)
  else if String.eqb t "enum" then option_map DEnum (d_enum x)
  else if String.eqb t "var" then option_map DVar (d_var x)
  else match x with
       | SList [Atom _; a; b] =>
         if String.eqb t "typedef" then do a' <- d_typename a; do b' <- d_str b; Some (DTypedef a' b')
         else if String.eqb t "ns" then
           match b with
           | SList c => do a' <- d_str a; do c' <- sequence (map d_decl c); Some (DNamespace a' c')
           | _ => None
           end
         else None
       | SList [Atom _; a] =>
         if String.eqb t "include" then option_map DInclude (d_str a) else None
       | _ => None
       end.

Definition d_imethod (x : sexp) : option imethod :=
  do l <- untag "imethod" x;
  match l with
  | [o; t; i; n; r; a; c] =>
    do o' <- d_str o; do t' <- d_bool t; do i' <- d_list d_typename i; do n' <- d_str n;
    do r' <- d_ret r; do a' <- d_args a; do c' <- d_bool c;
    Some {| im_orig := o'; im_templated := t'; im_insts := i'; im_name := n'; im_ret := r';
            im_args := a'; im_const := c' |}
  | _ => None
  end.
Definition d_ismethod (x : sexp) : option ismethod :=
  do l <- untag "istatic" x;
  match l with
  | [o; t; i; n; r; a] =>
    do o' <- d_str o; do t' <- d_bool t; do i' <- d_list d_typename i; do n' <- d_str n;
    do r' <- d_ret r; do a' <- d_args a;
    Some {| is_orig := o'; is_templated := t'; is_insts := i'; is_name := n'; is_ret := r'; is_args := a' |}
  | _ => None
  end.
Definition d_ictor (x : sexp) : option ictor :=
  do l <- untag "ictor" x;
  match l with
  | [o; t; i; n; a] =>
    do o' <- d_str o; do t' <- d_bool t; do i' <- d_list d_typename i; do n' <- d_str n; do a' <- d_args a;
    Some {| ik_orig := o'; ik_templated := t'; ik_insts := i'; ik_name := n'; ik_args := a' |}
  | _ => None
  end.
Definition d_iclass (x : sexp) : option iclass :=
  do l <- untag "iclass" x;
  match l with
  | [h; o; t; i; n; v; b; ks; ms; ss; ds; ps; os; es] =>
    do h' <- d_list d_str h; do o' <- d_str o; do t' <- d_bool t; do i' <- d_list d_typename i;
    do n' <- d_str n; do v' <- d_bool v; do b' <- d_opt d_typename b;
    do ks' <- d_list d_ictor ks; do ms' <- d_list d_imethod ms; do ss' <- d_list d_ismethod ss;
    do ds' <- d_list d_dunder ds; do ps' <- d_list d_var ps; do os' <- d_list d_oper os;
    do es' <- d_list d_enum es;
    Some {| ic_home := h'; ic_orig := o'; ic_templated := t'; ic_insts := i'; ic_name := n';
            ic_virtual := v'; ic_base := b'; ic_ctors := ks'; ic_methods := ms'; ic_statics := ss';
            ic_dunders := ds'; ic_props := ps'; ic_ops := os'; ic_enums := es' |}
  | _ => None
  end.
Definition d_ifunc (x : sexp) : option ifunc :=
  do l <- untag "ifun" x;
  match l with
  | [h; o; t; i; n; r; a] =>
    do h' <- d_list d_str h; do o' <- d_str o; do t' <- d_bool t; do i' <- d_list d_typename i;
    do n' <- d_str n; do r' <- d_ret r; do a' <- d_args a;
    Some {| if_home := h'; if_orig := o'; if_templated := t'; if_insts := i'; if_name := n';
            if_ret := r'; if_args := a' |}
  | _ => None
  end.
Definition d_idecl (x : sexp) : option idecl :=
  do l <- untag "idecl" x;
  match l with
  | [h; o; i; n] =>
    do h' <- d_list d_str h; do o' <- d_str o; do i' <- d_list d_typename i; do n' <- d_str n;
    Some {| id_home := h'; id_orig := o'; id_insts := i'; id_name := n' |}
  | _ => None
  end.
Fixpoint d_item (x : sexp) : option item :=
  let t := head_tag x in
  if String.eqb t "iclass" then option_map IClass (d_iclass x)
  else if String.eqb t "ifun" then option_map IFun (d_ifunc x)
  else if String.eqb t "idecl" then option_map IDecl (d_idecl x)
  else if String.eqb t "fwd" then option_map IFwd (d_fwd x)
  else if String.eqb t "enum" then option_map IEnum (d_enum x)
  else if String.eqb t "var" then option_map IVar (d_var x)
  else match x with
       | SList [Atom _; a; SList c] =>
         if String.eqb t "ns" then do a' <- d_str a; do c' <- sequence (map d_item c); Some (INamespace a' c')
         else None
       | SList [Atom _; a] =>
         if String.eqb t "include" then option_map IInclude (d_str a) else None
       | _ => None
       end.
